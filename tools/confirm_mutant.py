#!/usr/bin/env python3
"""tools/confirm_mutant.py SRC_DIR INDEX SEED_ID PROPERTY [CHECKS]

Confirms an independently written breaking change (SRC_DIR/mutation{INDEX}.diff with
demo{INDEX}.py and notes{INDEX}.md) in a scratch copy of /repo's HEAD: demo passes without
the change, patch applies, the repository suite still passes, demo fails with it.  Then runs
the named checks (default: the property's own) against the scratch copy and stores
everything as seeded/<SEED_ID>/ (patch.diff, demo.py, notes.md, meta.json).
"""
import json
import os
import shutil
import subprocess
import sys
import tempfile
import time

ROOT = os.path.dirname(os.path.dirname(os.path.abspath(__file__)))
src, idx, seed_id, prop = sys.argv[1:5]
checks = sys.argv[5].split(",") if len(sys.argv) > 5 else [prop]
tier = os.environ.get("MUT_TIER", "quick")
patch = os.path.join(src, "mutation%s.diff" % idx)
demo = os.path.join(src, "demo%s.py" % idx)
notes = os.path.join(src, "notes%s.md" % idx)
tmp = tempfile.mkdtemp(prefix="vf-seeded-")
meta = {"id": seed_id, "property": prop, "source": "independent sub-agent (given only the property text and a scratch worktree)",
        "ran": [], "confirmed": {}}
try:
    subprocess.run("git -C /repo archive HEAD | tar -x -C %s" % tmp, shell=True, check=True)
    env = dict(os.environ, PYTHONPATH=os.path.join(tmp, "src"), MPLBACKEND="Agg")

    def run(cmd, timeout=1500):
        t0 = time.time()
        p = subprocess.run(cmd, shell=True, cwd=tmp, env=env, capture_output=True, text=True, timeout=timeout)
        meta["ran"].append({"cmd": cmd.replace(tmp, "<scratch>"), "rc": p.returncode, "s": round(time.time() - t0, 1)})
        return p

    p = run("/venv/bin/python %s" % demo, 300)
    meta["confirmed"]["demo_passes_without"] = p.returncode == 0
    subprocess.run("git init -q .", shell=True, cwd=tmp)
    p = run("git apply --whitespace=nowarn %s" % patch)
    meta["confirmed"]["patch_applies"] = p.returncode == 0
    if p.returncode != 0:
        print("PATCH DOES NOT APPLY", p.stderr[-300:])
    p = run("/venv/bin/python -m pytest -q -p no:cacheprovider --timeout=900 2>&1 | tail -1")
    meta["confirmed"]["suite"] = p.stdout.strip()
    p = run("/venv/bin/python %s" % demo, 300)
    meta["confirmed"]["demo_fails_with"] = p.returncode != 0
    meta["demo_output_with_change"] = (p.stdout + p.stderr)[-600:]
    results = {}
    for c in checks:
        env2 = dict(os.environ, VF_REPO=tmp, VF_EVIDENCE_DIR=os.path.join(tmp, "evidence"))
        t0 = time.time()
        q = subprocess.run(["./check", c, "--tier", tier, "--seed", os.environ.get("MUT_SEED", "0")], cwd=ROOT, env=env2, capture_output=True, text=True, timeout=7200)
        lines = [ln for ln in q.stdout.splitlines() if ln.startswith(("VIOLATION", "KNOWN", "INCONCL")) or " tier=" in ln]
        first = None
        if q.returncode == 1:
            vio = [ln for ln in q.stdout.splitlines() if ln.startswith("VIOLATION")]
            if vio:
                rp = vio[0].split("replay=")[1].strip()
                try:
                    first = json.load(open(os.path.join(ROOT, rp))).get("why")
                except Exception:
                    first = None
        results[c] = {"exit": q.returncode, "summary": [ln[:200] for ln in lines[:4]], "first_witness": first, "s": round(time.time() - t0, 1)}
        meta["ran"].append({"cmd": "VF_REPO=<scratch> ./check %s --tier %s" % (c, tier), "rc": q.returncode, "s": round(time.time() - t0, 1)})
    meta["checks"] = results
    meta["caught_by"] = [c for c, r in results.items() if r["exit"] == 1]
    ok = all([meta["confirmed"].get("demo_passes_without"), meta["confirmed"].get("patch_applies"),
              "225 passed" in meta["confirmed"].get("suite", ""), meta["confirmed"].get("demo_fails_with")])
    meta["confirmed"]["all"] = ok
    out = os.path.join(ROOT, "seeded", seed_id)
    os.makedirs(out, exist_ok=True)
    shutil.copy(patch, os.path.join(out, "patch.diff"))
    shutil.copy(demo, os.path.join(out, "demo.py"))
    if os.path.exists(notes):
        shutil.copy(notes, os.path.join(out, "notes.md"))
        meta["needs_to_manifest"] = open(notes).read()[:1500]
    json.dump(meta, open(os.path.join(out, "meta.json"), "w"), indent=1)
    print(seed_id, "confirmed" if ok else "NOT CONFIRMED", meta["confirmed"], "caught_by", meta["caught_by"])
    for c, r in results.items():
        print("  ", c, r["exit"], (r["first_witness"] or "")[:200])
finally:
    shutil.rmtree(tmp, ignore_errors=True)
