#!/usr/bin/env python3
"""prints a markdown table of the seeded changes (seeded/*/meta.json)"""
import glob, json, os, re
ROOT = os.path.dirname(os.path.dirname(os.path.abspath(__file__)))
rows = []
for path in sorted(glob.glob(os.path.join(ROOT, "seeded", "*", "meta.json"))):
    m = json.load(open(path))
    notes = m.get("needs_to_manifest", "")
    first = ""
    for line in notes.splitlines():
        line = line.strip().lstrip("#").strip()
        if len(line) > 25:
            first = line
            break
    first = re.sub(r"\s+", " ", first)[:170]
    checks = m.get("checks", {})
    # a result obtained at an earlier commit of /verif than the last re-run is marked with *
    last = m.get("rechecked_at_verif_commit")
    caught = ", ".join("%s%s" % (c, "" if r.get("at_verif_commit", last) == last else "*")
                       for c, r in checks.items() if r["exit"] == 1) or "-"
    missed = ", ".join("%s" % c for c, r in checks.items() if r["exit"] != 1)
    wit = ""
    for c, r in checks.items():
        if r["exit"] == 1 and r.get("first_witness"):
            wit = re.sub(r"\s+", " ", r["first_witness"])[:110]
            break
    rows.append("| %s | %s | %s | %s | %s | %s | %s |" % (m["id"], m["property"], first.replace("|", "/"), caught, missed or "-",
                                                 m.get("rechecked_at_verif_commit", "-"), wit.replace("|", "/")))
print("| id | property | change (from the author's notes) | caught by (quick, seed 0; * = result of an earlier re-run) | ran, not caught | last re-run at /verif commit | first witness |")
print("|----|----------|-----------------------------------|---------------------------|-----------------|------|---------------|")
print("\n".join(rows))
