#!/usr/bin/env python3
"""tools/recheck_seeded.py [id-prefix ...]: re-runs, for every seeded change, the quick checks recorded in
its meta.json against a scratch copy of /repo HEAD with the patch applied, and updates meta.json
(checks, caught_by, rechecked_at_verif_commit)."""
import glob, json, os, shutil, subprocess, sys, tempfile, time
ROOT = os.path.dirname(os.path.dirname(os.path.abspath(__file__)))
prefixes = sys.argv[1:]
head = subprocess.run("git -C %s rev-parse --short HEAD" % ROOT, shell=True, capture_output=True, text=True).stdout.strip()
for path in sorted(glob.glob(os.path.join(ROOT, "seeded", "*", "meta.json"))):
    meta = json.load(open(path))
    if prefixes and not any(meta["id"].startswith(p) for p in prefixes):
        continue
    tmp = tempfile.mkdtemp(prefix="vf-recheck-")
    try:
        subprocess.run("git -C /repo archive HEAD | tar -x -C %s" % tmp, shell=True, check=True)
        subprocess.run("git init -q .", shell=True, cwd=tmp)
        p = subprocess.run("git apply --whitespace=nowarn %s" % os.path.join(os.path.dirname(path), "patch.diff"), shell=True, cwd=tmp)
        if p.returncode != 0:
            print(meta["id"], "PATCH DOES NOT APPLY")
            continue
        results = {}
        todo = list(meta.get("checks", {meta["property"]: None}).keys())
        minimal = os.environ.get("RECHECK_MODE") == "min"
        if minimal:
            # only until one check fires: those that caught it before first, then the property's own, then the rest;
            # results of checks not re-run are kept with the commit they were obtained at
            prev = meta.get("caught_by", [])
            todo = prev + [c for c in [meta["property"]] + todo if c not in prev]
            todo = list(dict.fromkeys(todo))
        for c in todo:
            if minimal and any(r["exit"] == 1 for r in results.values()):
                break
            env = dict(os.environ, VF_REPO=tmp, VF_EVIDENCE_DIR=os.path.join(tmp, "evidence"))
            t0 = time.time()
            q = subprocess.run(["./check", c, "--tier", "quick", "--seed", "0"], cwd=ROOT, env=env, capture_output=True, text=True, timeout=7200)
            first = None
            vio = [ln for ln in q.stdout.splitlines() if ln.startswith("VIOLATION")]
            if q.returncode == 1 and vio:
                try:
                    first = json.load(open(os.path.join(ROOT, vio[0].split("replay=")[1].strip()))).get("why")
                except Exception:
                    pass
            results[c] = {"exit": q.returncode, "summary": [ln[:200] for ln in q.stdout.splitlines() if " tier=" in ln][:1], "first_witness": first, "s": round(time.time() - t0, 1)}
        if minimal:
            old = meta.get("checks", {})
            for c, r in old.items():
                if c not in results and isinstance(r, dict):
                    r.setdefault("at_verif_commit", meta.get("rechecked_at_verif_commit", "earlier"))
                    results[c] = r
        for c, r in results.items():
            r.setdefault("at_verif_commit", head)
        meta["checks"] = results
        meta["caught_by"] = [c for c, r in results.items() if r["exit"] == 1 and r.get("at_verif_commit") == head]
        meta["caught_earlier_by"] = [c for c, r in results.items() if r["exit"] == 1 and r.get("at_verif_commit") != head]
        meta["rechecked_at_verif_commit"] = head
        json.dump(meta, open(path, "w"), indent=1)
        print(meta["id"], "caught_by", meta["caught_by"], {c: r["exit"] for c, r in results.items()}, flush=True)
    finally:
        shutil.rmtree(tmp, ignore_errors=True)
