#!/bin/sh
# tools/run_own_mutants.sh [pattern]  -> appends one line per mutant to mutants/results.txt
cd "$(dirname "$0")/.."
for f in mutants/${1:-a-}*.diff; do
  name=$(basename $f .diff)
  check=$(echo $name | sed 's/^a-\(c[0-9]*\)-.*/\1/' | tr a-z A-Z)
  [ "$name" = "revert_F3" ] && continue
  out=$(tools/run_mutant.sh $PWD/$f $check --suite 2>&1)
  suite=$(echo "$out" | grep -E "passed|failed" | head -1 | cut -c1-60)
  res=$(echo "$out" | grep -E "^C[0-9]+ tier" | head -1 | sed 's/ wall.*//')
  vio=$(echo "$out" | grep -c "^VIOLATION")
  echo "$name | suite: $suite | $res | violations_lines=$vio" >> mutants/results.txt
done
echo BATCH_DONE >> mutants/results.txt
