#!/usr/bin/env python3
"""Generates mutants/*.diff: the deliberate breakages of DESIGN.md Appendix A as patches against /repo HEAD."""
import os, subprocess, shutil, tempfile, sys
ROOT = os.path.dirname(os.path.dirname(os.path.abspath(__file__)))
M = [
 ("a-c01-pursue-last", "shape.py", "            index_jordan = possibles[0]\n", "            index_jordan = possibles[-1]\n"),
 ("a-c01-xor-wrong", "shape.py", "        return (self - other) | (other - self)\n", "        return (self - other) | other\n"),
 ("a-c01-newton-2", "curve.py", "        for k in range(20):  # Number of newton iteration\n", "        for k in range(2):  # Number of newton iteration\n"),
 ("a-c01-midpoint-start", "shape.py", "                mid_point = segment(Fraction(1, 2))\n", "                mid_point = segment(Fraction(1, 64))\n"),
 ("a-c02-closed-cw", "shape.py", "        return wind > -1 if boundary else wind == 0\n", "        return wind >= -1 if boundary else wind == 0\n"),
 ("a-c02-tolerance", "curve.py", "            if dist < 1e-6:  # Tolerance\n", "            if dist < 1e-2:  # Tolerance\n"),
 ("a-c03-connected-any", "shape.py", "    def _contains_shape(self, other: DefinedShape) -> bool:\n        for subshape in self.subshapes:\n            if not subshape.contains_shape(other):\n                return False\n        return True\n", "    def _contains_shape(self, other: DefinedShape) -> bool:\n        for subshape in self.subshapes:\n            if subshape.contains_shape(other):\n                return True\n        return False\n"),
 ("a-c04-nodes", "curve.py", "            nnodes = 3 + expx + expy + curve.degree\n        assert isinstance(nnodes, int)\n        assert nnodes >= 0\n        assert expx >= 0", "            nnodes = 1 + expx + expy + curve.degree\n        assert isinstance(nnodes, int)\n        assert nnodes >= 0\n        assert expx >= 0"),
 ("a-c04-division", "shape.py", "        return total / (1 + expx)\n", "        return total / (1 + expx) if expx < 3 else total / expx\n"),
 ("a-c05-no-filter-rotations", "shape.py", "        bez_indexs = FollowPath.filter_rotations(bez_indexs)\n", "        bez_indexs = tuple(bez_indexs)\n"),
 ("a-c06-or-empty", "shape.py", "        new_jordans = FollowPath.or_shapes(self, other)\n        if len(new_jordans) == 0:\n            return WholeShape()\n", "        new_jordans = FollowPath.or_shapes(self, other)\n        if len(new_jordans) == 0:\n            return EmptyShape()\n"),
 ("a-c06-split-filter", "jordancurve.py", "            if abs(node) < 1e-6 or abs(node - 1) < 1e-6:\n                pairs.pop(i)\n", "            if node == 0 or node == 1:\n                pairs.pop(i)\n"),
 ("a-c07-eq-index0", "jordancurve.py", "        for index, segment0 in enumerate(selcopy.segments):\n            if segment0 == segment1:\n                break\n        else:\n            return False\n", "        index = 0\n"),
 ("a-c07-point-tol", "polygon.py", "        if abs(self[0] - other[0]) > 1e-9:\n            return False\n        if abs(self[1] - other[1]) > 1e-9:\n", "        if abs(self[0] - other[0]) > 1e-3:\n            return False\n        if abs(self[1] - other[1]) > 1e-3:\n"),
 ("a-c08-or-self", "shape.py", "        if other in self:\n            return copy(self)\n        if self in other:\n            return copy(other)\n        new_jordans = FollowPath.or_shapes(self, other)", "        if other in self:\n            return self\n        if self in other:\n            return copy(other)\n        new_jordans = FollowPath.or_shapes(self, other)"),
 ("a-c08-set-jordan-nocopy", "shape.py", "        self.__jordancurve = copy(other)\n", "        self.__jordancurve = other\n"),
 ("a-c08-indexs-nocopy", "shape.py", "            new_bezier = copy(new_bezier)\n", "            pass\n"),
 ("a-c09-scale-skip-last", "shape.py", "        for jordan in self.jordans:\n            jordan.scale(xscale, yscale)\n", "        for jordan in self.jordans[: max(1, len(self.jordans) - 1)]:\n            jordan.scale(xscale, yscale)\n"),
 ("a-c09-degrees", "jordancurve.py", "            angle *= np.pi / 180\n", "            angle *= np.pi / 180 if len(self.segments) != 5 else 180 / np.pi\n"),
 ("a-c10-setter-no-reset", "jordancurve.py", "            segment.clean()\n        self.__lenght = None\n", "            segment.clean()\n"),
 ("a-c10-scale-no-reset", "jordancurve.py", "        self.__lenght = None  # The lenght changes with the scale\n", ""),
 ("a-c11-scale-validate-late", "jordancurve.py", "        float(xscale)\n        float(yscale)\n        for vertex in self.vertices:\n            vertex.scale(xscale, yscale)\n", "        float(xscale)\n        for vertex in self.vertices:\n            vertex._x *= xscale\n        float(yscale)\n        for vertex in self.vertices:\n            vertex._y *= yscale\n"),
 ("a-c13-lines-float", "curve.py", "            param0 = diff0.cross(vector1) / denom\n", "            param0 = diff0.cross(vector1) / float(denom)\n"),
 ("a-c13-cap-1e6", "polygon.py", "limit_denominator(10**9)\n            self._y", "limit_denominator(10**6)\n            self._y"),
 ("a-c14-start-grid", "curve.py", "        usample = list(Math.closed_linspace(self.npts + 3))\n", "        usample = list(Math.closed_linspace(2))\n"),
 ("a-c14-endpoints-filter", "jordancurve.py", "                if ui is None or (0 < ui and ui < 1) or (0 < vi and vi < 1):\n", "                if ui is None or ((0 < ui and ui < 1) and (0 < vi and vi < 1)):\n"),
 ("a-c15-not-sorted", "jordancurve.py", "        nodes = tuple(sorted(nodes))\n        segment = self.segments[index]\n", "        nodes = tuple(nodes)\n        segment = self.segments[index]\n"),
 ("a-c16-circle-sin", "primitive.py", "        height = np.tan(angle / 2)\n", "        height = np.sin(angle / 2)\n"),
 ("a-c16-square-center", "primitive.py", "        vertices = [(side, side), (-side, side), (-side, -side), (side, -side)]\n        vertices = [center + Point2D(vertex) for vertex in vertices]\n", "        vertices = [(side, side), (-side, side), (-side, -side), (side, -side)]\n        vertices = [Point2D(center[0], 0 * center[1] + center[1] * (center[0] == center[0] and 1)) + Point2D(vertex) for vertex in vertices]\n        vertices[2] = Point2D(center[0] - side, -side) if center[1] > 1000 else vertices[2]\n"),
 ("a-c17-box-endpoints", "curve.py", "        xmin = min(point[0] for point in self.ctrlpoints)\n        xmax = max(point[0] for point in self.ctrlpoints)\n        ymin = min(point[1] for point in self.ctrlpoints)\n        ymax = max(point[1] for point in self.ctrlpoints)\n", "        ends = (self.ctrlpoints[0], self.ctrlpoints[-1])\n        xmin = min(point[0] for point in ends)\n        xmax = max(point[0] for point in ends)\n        ymin = min(point[1] for point in ends)\n        ymax = max(point[1] for point in ends)\n"),
 ("a-c18-derivate-deg5", "curve.py", "        matrix = Derivate.non_rational_bezier(self.degree, times)\n        new_ctrlpoints = np.dot(matrix, self.ctrlpoints)\n        return self.__class__(new_ctrlpoints)\n\n    def box(self)", "        matrix = Derivate.non_rational_bezier(self.degree, times)\n        new_ctrlpoints = np.dot(matrix, self.ctrlpoints)\n        if self.degree >= 5 and times >= 2:\n            new_ctrlpoints = new_ctrlpoints[::-1]\n        return self.__class__(new_ctrlpoints)\n\n    def box(self)"),
 ("a-c19-float-last-hole", "shape.py", "    def __float__(self) -> float:\n        return sum(map(float, self.subshapes))\n", "    def __float__(self) -> float:\n        subs = self.subshapes if len(self.subshapes) < 4 else self.subshapes[:-1]\n        return sum(map(float, subs))\n"),
 ("a-c19-disjoint-single-nocopy", "shape.py", "        if len(subshapes) == 1:\n            return copy(subshapes[0])\n", "        if len(subshapes) == 1:\n            return subshapes[0]\n"),
 ("a-c20-closepoly", "plot.py", "        vertices += verts\n        commands += comms\n    vertices.append(vertices[0])\n    commands.append(Path.CLOSEPOLY)\n    vertices = tuple(tuple(map(float, point)) for point in vertices)\n    vertices = tuple(\n", "        vertices += verts\n        commands += comms\n    vertices = tuple(tuple(map(float, point)) for point in vertices)\n    vertices = tuple(\n"),
 ("a-c20-quadratic-order", "plot.py", "        vertices += list(segment.ctrlpoints[1:])\n        commands += [Path.CURVE3] * 2\n", "        vertices += list(segment.ctrlpoints[1:])[::-1]\n        commands += [Path.CURVE3] * 2\n"),
]
out = os.path.join(ROOT, "mutants")
os.makedirs(out, exist_ok=True)
tmp = tempfile.mkdtemp(prefix="vf-mk-")
subprocess.run("git -C /repo archive HEAD | tar -x -C %s" % tmp, shell=True, check=True)
subprocess.run("git init -q . && git add -A && git -c user.email=a@b -c user.name=a commit -qm base", shell=True, cwd=tmp, check=True)
bad = []
for name, fname, old, new in M:
    path = os.path.join(tmp, "src", "shapepy", fname)
    src = open(path).read()
    if src.count(old) != 1:
        bad.append((name, src.count(old)))
        continue
    open(path, "w").write(src.replace(old, new))
    diff = subprocess.run("git diff", shell=True, cwd=tmp, capture_output=True, text=True).stdout
    open(os.path.join(out, name + ".diff"), "w").write(diff)
    subprocess.run("git checkout -q -- .", shell=True, cwd=tmp)
shutil.rmtree(tmp)
print("written", len(M) - len(bad), "not unique / missing:", bad)
