#!/usr/bin/env python3
"""Regenerates MANIFEST.json from the check modules present under vf/checks."""
import importlib
import json
import os
import sys

ROOT = os.path.dirname(os.path.dirname(os.path.abspath(__file__)))
sys.path.insert(0, ROOT)

ALL = ["C%02d" % i for i in range(1, 21)]
checks = []
na = []
for cid in ALL:
    path = os.path.join(ROOT, "vf", "checks", cid.lower() + ".py")
    if not os.path.exists(path):
        na.append({"property_id": cid, "reason": "check not built yet in this round (runtime monitoring applies; see DESIGN.md section 6)"})
        continue
    src = open(path).read()
    ns = {}
    # read the declarative constants without importing shapepy
    mod = importlib.import_module("vf.checks." + cid.lower())
    checks.append({
        "property_id": cid,
        "quick_cmd": "./check %s --tier quick" % cid,
        "thorough_cmd": "./check %s --tier thorough" % cid,
        "evidence_file": "evidence/%s.json" % cid,
        "replay_cmd_template": "./check %s --replay {path}" % cid,
        "engine": "vf",
        "level_claimed": {
            "category": mod.LEVEL,
            "text": getattr(mod, "LEVEL_TEXT", mod.__doc__.strip().split("\n\n", 1)[-1].replace("\n", " ")),
            "design_ref": "DESIGN.md section 6, %s" % cid,
        },
        "level_note": "; ".join(mod.ASSUMPTIONS),
        "technique": getattr(mod, "TECHNIQUE", "runtime monitoring: contract monitors and reference-model oracle on executions of the real code"),
    })
manifest = {
    "version": 1,
    "setup_cmd": "/venv/bin/python -m compileall -q vf >/dev/null && ./check --selftest",
    "hooks": {
        "guard": "SHAPEPY_VERIF",
        "enable": "no source hooks: monitors are attached from outside (attribute wrapping, sys.monitoring); checks import /repo/src as it is",
        "baseline_off_cmd": "cd /repo && /venv/bin/python -m pytest -ra -q -p no:cacheprovider --timeout=900 --continue-on-collection-errors",
        "source_commits": [],
        "add_only": True,
    },
    "engines": [{
        "name": "vf",
        "path": "vf/",
        "serves_properties": [c["property_id"] for c in checks],
        "kind_free_text": "runtime monitoring harness: exact-rational reference oracle + shadow model, contract monitors attached to the real functions, sys.monitoring failpoints, sharded seeded workloads, offline log aggregation",
    }],
    "checks": checks,
    "not_applicable": na,
    "notes": "Every check runs the current working tree of /repo (PYTHONPATH=$VF_REPO/src, default /repo). Exit 0 = held on everything explored (KNOWN-FINDING lines for listed genuine defects), 1 = VIOLATION line(s), 2 = nothing could be decided. known_findings.json lists genuine defects (open = recorded, fixed = repaired by a fix: commit).",
}
with open(os.path.join(ROOT, "MANIFEST.json"), "w") as fh:
    json.dump(manifest, fh, indent=1)
print("checks:", [c["property_id"] for c in checks], "not_applicable:", [n["property_id"] for n in na])
