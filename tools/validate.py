#!/usr/bin/env python3
"""python3-vt tools/validate.py : validates MANIFEST.json and evidence/*.json against the schemas"""
import glob, json, os, sys
import jsonschema
ROOT = os.path.dirname(os.path.dirname(os.path.abspath(__file__)))
ok = True
jsonschema.validate(json.load(open(os.path.join(ROOT, "MANIFEST.json"))), json.load(open("/root/.vp/MANIFEST.schema.json")))
schema = json.load(open("/root/.vp/EVIDENCE.schema.json"))
for path in sorted(glob.glob(os.path.join(ROOT, "evidence", "*.json"))):
    try:
        jsonschema.validate(json.load(open(path)), schema)
    except Exception as exc:
        ok = False
        print("INVALID", path, str(exc)[:300])
print("valid" if ok else "INVALID")
sys.exit(0 if ok else 1)
