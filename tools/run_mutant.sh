#!/bin/sh
# tools/run_mutant.sh PATCH CHECK[,CHECK...] [--suite] [--tier quick|thorough] [--seed N]
# Applies PATCH to a scratch copy of /repo (outside /repo and /verif), optionally runs the
# repository's own test-suite on it (must stay green), runs the named checks against the
# copy (VF_REPO) and removes the copy.  Evidence goes to a scratch directory, not evidence/.
set -u
PATCH="$1"; CHECKS="$2"; shift 2
SUITE=0; TIER=quick; SEED=0
while [ $# -gt 0 ]; do
  case "$1" in
    --suite) SUITE=1;;
    --tier) TIER="$2"; shift;;
    --seed) SEED="$2"; shift;;
  esac; shift
done
HERE="$(cd "$(dirname "$0")/.." && pwd)"
TMP="$(mktemp -d /tmp/vf-mutant-XXXXXX)"
trap 'rm -rf "$TMP"' EXIT
git -C /repo archive HEAD | tar -x -C "$TMP" || exit 3
# include uncommitted changes of /repo? no: mutants are relative to HEAD
( cd "$TMP" && git init -q . >/dev/null 2>&1 && git apply --whitespace=nowarn "$PATCH" ) || { echo "PATCH DOES NOT APPLY: $PATCH"; exit 3; }
if [ "$SUITE" = 1 ]; then
  ( cd "$TMP" && PYTHONPATH="$TMP/src" /venv/bin/python -m pytest -q -p no:cacheprovider --timeout=900 2>&1 | tail -1 )
fi
RC=0
for C in $(echo "$CHECKS" | tr ',' ' '); do
  OUT=$(cd "$HERE" && VF_REPO="$TMP" VF_EVIDENCE_DIR="$TMP/evidence" ./check "$C" --tier "$TIER" --seed "$SEED" 2>&1)
  echo "$OUT" | grep -E "^C[0-9]+ tier|^VIOLATION|^KNOWN|^INCONCL" | cut -c1-260 | head -6
  echo "$OUT" | grep -q "^VIOLATION" && RC=1
done
exit $RC
