#!/bin/sh
# runs every quick check against /repo (seed from VERIF_SEED, default 0), then validates MANIFEST and evidence
cd "$(dirname "$0")/.."
RC=0
for c in C01 C02 C03 C04 C05 C06 C07 C08 C09 C10 C11 C12 C13 C14 C15 C16 C17 C18 C19 C20; do
  ./check $c --tier quick > /tmp/vf-last-$c.log 2>&1
  rc=$?
  grep -E "^C[0-9]+ tier|^VIOLATION|^INCONCLUSIVE" /tmp/vf-last-$c.log | cut -c1-200
  [ $rc -ne 0 ] && RC=1
  rm -f /tmp/vf-last-$c.log
done
python3-vt tools/validate.py || RC=1
exit $RC
