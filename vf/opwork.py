"""Shared workload of the operator family (C01, C05, C06, C08, C12): operand pairs,
contact classification decided *before* the library runs, program trees."""
from __future__ import annotations

import math
from fractions import Fraction as Fr

from . import gen as G
from . import model as M
from . import oracle as O
from . import snapshot as S

# ----------------------------------------------------------------------------------
# contact classification
# ----------------------------------------------------------------------------------


def _poly_pair_class(ca, cb, L):
    """exact classification of two polygonal curves"""
    con = O.polygon_pair_contacts(ca, cb)
    out = {"proper": len(con["proper"]), "touch": len(con["touch"]), "overlap": len(con["overlap"]), "near": False}
    if con["touch"] or con["overlap"]:
        return out
    # near-degenerate: a vertex of one closer than 1e-4*L to the other boundary, while the
    # library works with absolute tolerances of 1e-6 (parameters and distances)
    boxa, boxb = O.curve_bbox(ca), O.curve_bbox(cb)
    margin = Fr(1e-4 * L)
    if boxa[2] + margin < boxb[0] or boxb[2] + margin < boxa[0] or boxa[3] + margin < boxb[1] or boxb[3] + margin < boxa[1]:
        return out
    d2 = O.polygon_min_clearance2(ca, cb)
    if d2 is not None and d2 < margin * margin:
        out["near"] = True
    return out


def _flatten_np(curve, nsub):
    import numpy as np

    pts = O.flatten(curve, nsub)
    arr = np.array(pts, dtype=float)
    # index of the junction vertices (start of each segment)
    junctions = []
    k = 0
    for ctrl in curve:
        junctions.append(k)
        k += 1 if len(ctrl) == 2 else nsub
    return arr, junctions


def _float_pair_class(ca, cb, L, nsub=24):
    """float classification (flattened curves) for pairs with curved pieces"""
    import numpy as np

    pa, ja = _flatten_np(ca, nsub)
    pb, jb = _flatten_np(cb, nsub)
    out = {"proper": 0, "touch": 0, "overlap": 0, "near": False}
    boxa = (pa[:, 0].min(), pa[:, 1].min(), pa[:, 0].max(), pa[:, 1].max())
    boxb = (pb[:, 0].min(), pb[:, 1].min(), pb[:, 0].max(), pb[:, 1].max())
    m = 1e-3 * L
    if boxa[2] + m < boxb[0] or boxb[2] + m < boxa[0] or boxa[3] + m < boxb[1] or boxb[3] + m < boxa[1]:
        return out
    a0, a1 = pa, np.roll(pa, -1, axis=0)
    b0, b1 = pb, np.roll(pb, -1, axis=0)
    da, db = a1 - a0, b1 - b0
    # all pairs of polyline edges
    r = b0[None, :, :] - a0[:, None, :]
    den = da[:, None, 0] * db[None, :, 1] - da[:, None, 1] * db[None, :, 0]
    with np.errstate(divide="ignore", invalid="ignore"):
        t = (r[:, :, 0] * db[None, :, 1] - r[:, :, 1] * db[None, :, 0]) / den
        s = (r[:, :, 0] * da[:, None, 1] - r[:, :, 1] * da[:, None, 0]) / den
    hit = (den != 0) & (t >= 0) & (t < 1) & (s >= 0) & (s < 1)
    ia, ib = np.nonzero(hit)
    out["proper"] = int(len(ia))
    near_cross_a = np.zeros(len(pa), dtype=bool)
    near_cross_b = np.zeros(len(pb), dtype=bool)
    for i, j in zip(ia, ib):
        # crossing angle
        na = math.hypot(*da[i])
        nb = math.hypot(*db[j])
        if na == 0 or nb == 0:
            out["near"] = True
            continue
        sin = abs(den[i, j]) / (na * nb)
        if sin < math.sin(math.radians(8)):
            out["near"] = True
        # crossing close to a junction of either curve (parameter filters of the library)
        p = a0[i] + t[i, j] * da[i]
        for jj in ja:
            if math.hypot(*(pa[jj] - p)) < 1e-4 * L:
                out["near"] = True
        for jj in jb:
            if math.hypot(*(pb[jj] - p)) < 1e-4 * L:
                out["near"] = True
        for k in range(-2, 4):
            near_cross_a[(i + k) % len(pa)] = True
            near_cross_b[(j + k) % len(pb)] = True

    def dist_to_polyline(P, q0, q1):
        d = q1 - q0
        dd = (d * d).sum(axis=1)
        dd[dd == 0] = 1e-300
        rel = P[:, None, :] - q0[None, :, :]
        tt = np.clip((rel * d[None, :, :]).sum(axis=2) / dd[None, :], 0, 1)
        proj = q0[None, :, :] + tt[:, :, None] * d[None, :, :]
        return np.sqrt(((P[:, None, :] - proj) ** 2).sum(axis=2)).min(axis=1)

    dist_a = dist_to_polyline(pa, b0, b1)
    dist_b = dist_to_polyline(pb, a0, a1)
    # away from crossings the curves must stay apart (otherwise: tangency / touching)
    tang = 2e-3 * L
    if (dist_a[~near_cross_a] < tang).any() or (dist_b[~near_cross_b] < tang).any():
        out["near"] = True
    return out


def pair_class(region_a, region_b):
    """Classification of two regions' boundaries.  Returns dict with
    class in {'apart', 'crossing', 'contact'} and counts."""
    ca_list, cb_list = O.region_curves(region_a), O.region_curves(region_b)
    if not ca_list or not cb_list:
        return {"class": "apart", "proper": 0, "contact": False}
    L = max(O.diameter(O.curves_bbox(ca_list + cb_list)), 1e-12)
    total = {"proper": 0, "touch": 0, "overlap": 0, "near": False}
    for ca in ca_list:
        for cb in cb_list:
            if O.is_polygonal(ca) and O.is_polygonal(cb):
                res = _poly_pair_class(ca, cb, L)
            else:
                res = _float_pair_class(ca, cb, L)
            for k in ("proper", "touch", "overlap"):
                total[k] += res[k]
            total["near"] = total["near"] or res["near"]
    contact = bool(total["touch"] or total["overlap"] or total["near"])
    cls = "contact" if contact else ("crossing" if total["proper"] else "apart")
    total["class"] = cls
    total["contact"] = contact
    return total


# ----------------------------------------------------------------------------------
# operand pairs
# ----------------------------------------------------------------------------------

KIND_WEIGHTS = "SSSSSSCCDDNMUUVEW"


def make_pair(rng, curved_prob=0.25, kinds=None, size=10.0, prefer_crossing=0.5):
    """operand pair; with probability `prefer_crossing` up to four placements are tried until the
    oracle classifies the boundaries as crossing (so that the interesting stratum is well filled)"""
    if rng.random() < prefer_crossing:
        best = None
        for _ in range(4):
            sa, sb, info = _make_pair(rng, curved_prob, kinds, size)
            if sa["t"] in ("empty", "whole") or sb["t"] in ("empty", "whole"):
                return sa, sb, info
            if spec_curved_any(sa, sb):
                return sa, sb, info   # classification of curved pairs is costly: keep the first
            try:
                cls = pair_class(S.snap_shape(G.build(sa)), S.snap_shape(G.build(sb)))
            except Exception:
                return sa, sb, info
            best = (sa, sb, info)
            if cls["class"] == "crossing":
                return sa, sb, info
        return best
    return _make_pair(rng, curved_prob, kinds, size)


def spec_curved_any(sa, sb):
    return G.spec_is_curved(sa) or G.spec_is_curved(sb)


def _make_pair(rng, curved_prob=0.25, kinds=None, size=10.0):
    ka = rng.choice(kinds or KIND_WEIGHTS)
    kb = rng.choice(kinds or KIND_WEIGHTS)
    curved = rng.random() < curved_prob
    num = None if curved else rng.choice(["int", "frac", "float"])
    numb = num
    sa, _ = G.random_shape(rng, ka, num, curved, (0, 0), size)
    placement = rng.choice(["overlap", "overlap", "overlap", "nested", "far", "close"])
    if placement == "far":
        d = size * 6
    elif placement == "nested":
        d = size * 0.1
    elif placement == "close":
        d = size * 2.2
    else:
        d = size * rng.uniform(0.3, 1.2)
    ang = rng.uniform(0, math.tau)
    off = (d * math.cos(ang), d * math.sin(ang))
    sizeb = size * (rng.choice([0.25, 0.4]) if placement == "nested" else rng.choice([0.6, 1.0, 1.0]))
    if G.spec_num(sa) == "int":
        # integer shapes are large (see gen); scale the offset accordingly
        box = O.curves_bbox(G.spec_curves_exact(sa)) if sa["t"] not in ("empty", "whole") else (0, 0, 1, 1)
        sc = max(O.diameter(box) / (2 * size), 1.0) if sa["t"] not in ("empty", "whole") else 1.0
        off = (round(off[0] * sc), round(off[1] * sc))
        sizeb = sizeb * sc
    sb, _ = G.random_shape(rng, kb, numb, curved and rng.random() < 0.7, off, sizeb)
    return sa, sb, {"ka": ka, "kb": kb, "placement": placement}


# ----------------------------------------------------------------------------------
# programs
# ----------------------------------------------------------------------------------


def random_program(rng, nleaves, depth):
    """expression tree over leaf indices: ('leaf', i) | (unop, e) | (binop, e1, e2)"""
    if depth == 0 or (depth < 3 and rng.random() < 0.25):
        return ("leaf", rng.randrange(nleaves))
    r = rng.random()
    if r < 0.15:
        return (rng.choice(["inv", "neg"]), random_program(rng, nleaves, depth - 1))
    op = rng.choice(["or", "and", "sub", "xor", "or", "and", "sub", "add", "mul"])
    return (op, random_program(rng, nleaves, depth - 1), random_program(rng, nleaves, depth - 1))


def program_text(prog):
    if prog[0] == "leaf":
        return "L%d" % prog[1]
    if prog[0] in M.UNARY:
        return "%s%s" % (M.SYMBOL[prog[0]], program_text(prog[1]))
    return "(%s %s %s)" % (program_text(prog[1]), M.SYMBOL[prog[0]], program_text(prog[2]))


def program_model(prog, leaf_regions):
    if prog[0] == "leaf":
        return M.leaf(leaf_regions[prog[1]])
    if prog[0] in M.UNARY:
        return (prog[0], program_model(prog[1], leaf_regions))
    return (prog[0], program_model(prog[1], leaf_regions), program_model(prog[2], leaf_regions))


class ProgramFailure(Exception):
    def __init__(self, node_text, exc):
        super().__init__("%s raised %s: %s" % (node_text, type(exc).__name__, str(exc)[:160]))
        self.node_text = node_text
        self.exc = exc


def eval_program(prog, leaves, on_node=None):
    """Evaluates the tree with the library, node by node (leaf objects are re-used, not
    copied).  on_node(op, operands, node_text) is called before each operator application."""
    if prog[0] == "leaf":
        return leaves[prog[1]]
    if prog[0] in M.UNARY:
        x = eval_program(prog[1], leaves, on_node)
        if on_node:
            on_node(prog[0], (x,), program_text(prog))
        try:
            return M.UNARY[prog[0]](x)
        except Exception as exc:
            raise ProgramFailure(program_text(prog), exc)
    x = eval_program(prog[1], leaves, on_node)
    y = eval_program(prog[2], leaves, on_node)
    if on_node:
        on_node(prog[0], (x, y), program_text(prog))
    try:
        return M.BINARY[prog[0]](x, y)
    except ProgramFailure:
        raise
    except Exception as exc:
        raise ProgramFailure(program_text(prog), exc)


def config_tags(regions):
    """size tags used by the K-abstol predicate"""
    curves = []
    for r in regions:
        curves += O.region_curves(r)
    if not curves:
        return {"diameter": None, "maxcoord": None, "curved": False}
    box = O.curves_bbox(curves)
    return {
        "diameter": O.diameter(box),
        "maxcoord": max(abs(float(v)) for v in box),
        "curved": any(len(seg) > 2 for c in curves for seg in c),
    }


def cap_safe(region_a, region_b) -> bool:
    """For two rational polygonal regions: True when no intermediate product of a crossing
    parameter and a vertex coordinate can exceed the library's denominator cap of 10**9, so
    that operator results must be exact (see K-cap)."""
    ca_list, cb_list = O.region_curves(region_a), O.region_curves(region_b)
    maxden = 1
    for c in ca_list + cb_list:
        if not O.is_polygonal(c):
            return False
        for seg in c:
            for p in seg:
                maxden = max(maxden, p[0].denominator, p[1].denominator)
    parden = 1
    for ca in ca_list:
        for cb in cb_list:
            con = O.polygon_pair_contacts(ca, cb)
            for _, _, t, s in con["proper"] + con["touch"]:
                parden = max(parden, t.denominator, s.denominator)
                p = O.evaluate(ca[_], t) if False else None
    # the crossing point itself: denominator <= parden * maxden
    return maxden * parden * 4 <= 10 ** 9


def is_rational_region(shape) -> bool:
    raw = S.raw_numbers(shape) if hasattr(shape, "jordans") else []
    return all((type(v) is int) or (isinstance(v, Fr) and O.is_wellformed_fraction(v)) for v in raw)
