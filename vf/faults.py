"""sys.monitoring tools: reach counters, logical step budget, source-free failpoints."""
from __future__ import annotations

import os
import sys
import types

mon = sys.monitoring
E = mon.events

REACH_TOOL = 3
STEP_TOOL = 4
FAULT_TOOL = 5


def shapepy_dir():
    import shapepy

    return os.path.dirname(os.path.abspath(shapepy.__file__)) + os.sep


# ----------------------------------------------------------------------------------
# reach: which shapepy functions were entered (each reported once, then disabled)
# ----------------------------------------------------------------------------------


class Reach:
    def __init__(self):
        self.seen = set()
        self.prefix = shapepy_dir()
        self.active = False

    def start(self):
        if self.active:
            return
        try:
            mon.use_tool_id(REACH_TOOL, "vf-reach")
        except ValueError:
            return
        mon.register_callback(REACH_TOOL, E.PY_START, self._cb)
        mon.set_events(REACH_TOOL, E.PY_START)
        self.active = True

    def _cb(self, code, offset):
        fn = code.co_filename
        if fn.startswith(self.prefix):
            self.seen.add(fn[len(self.prefix):-3] + "." + code.co_qualname)
        return mon.DISABLE

    def stop(self):
        if not self.active:
            return
        mon.set_events(REACH_TOOL, 0)
        mon.register_callback(REACH_TOOL, E.PY_START, None)
        mon.free_tool_id(REACH_TOOL)
        self.active = False


# ----------------------------------------------------------------------------------
# logical steps: number of shapepy function entries
# ----------------------------------------------------------------------------------


class StepBudgetExceeded(BaseException):
    pass


class Steps:
    """Counts PY_START events in shapepy frames; raises when a budget is exceeded."""

    def __init__(self):
        self.prefix = shapepy_dir()
        self.count = 0
        self.budget = None
        self.tripped = False
        self.active = False
        self._codes = {}

    def start(self):
        mon.use_tool_id(STEP_TOOL, "vf-steps")
        mon.register_callback(STEP_TOOL, E.PY_START, self._cb)
        mon.set_events(STEP_TOOL, E.PY_START)
        self.active = True

    def _cb(self, code, offset):
        ok = self._codes.get(code)
        if ok is None:
            ok = code.co_filename.startswith(self.prefix)
            self._codes[code] = ok
        if not ok:
            return mon.DISABLE
        self.count += 1
        if self.budget is not None and self.count > self.budget:
            self.budget = None
            self.tripped = True
            raise StepBudgetExceeded()

    def reset(self, budget=None):
        self.count = 0
        self.budget = budget
        self.tripped = False

    def stop(self):
        if not self.active:
            return
        mon.set_events(STEP_TOOL, 0)
        mon.register_callback(STEP_TOOL, E.PY_START, None)
        mon.free_tool_id(STEP_TOOL)
        self.active = False


# ----------------------------------------------------------------------------------
# failpoints
# ----------------------------------------------------------------------------------


class InjectedFault(BaseException):
    """Raised by the injector at an internal call boundary / statement"""


class Injector:
    """Counts, and raises at, the k-th event of a kind inside shapepy code.

    mode "call": CALL events whose *caller* code lies in shapepy (so the exception surfaces
    at a call instruction of a shapepy frame, exactly as an error raised by the callee).
    mode "line": LINE events in the named shapepy functions (asynchronous interrupt model).
    No injection while a numpy C callable is on the stack: numpy object loops keep calling
    back with the error indicator set and turn the injected exception into a SystemError
    that no real interpreter run can produce.

    A dry run (`survey`) observes every event globally, tracks the numpy depth and records
    for each admissible boundary its site (code object, offset/line) and the ordinal of that
    event among *all* events at the same site.  An armed run (`arm(k)`) then only enables
    the event on that one code object and fires at that ordinal, which keeps the cost of an
    injected run close to the cost of the operation itself.  This relies on the operation
    being deterministic for freshly rebuilt operands (checked: a run in which the site is
    not reached is counted as not fired, never as held).
    """

    def __init__(self, mode="call", line_functions=None):
        self.mode = mode
        self.prefix = shapepy_dir()
        self.line_functions = set(line_functions or ())
        self.count = 0
        self.sites = []          # per admissible boundary: (code, where, ordinal)
        self.np_depth = 0
        self._codes = {}
        self._occ = {}
        self.surveying = False
        self.target = None       # (code, where, ordinal)
        self._seen = 0
        self.fired_at = None
        self._local_code = None

    def _in_lib(self, code):
        ok = self._codes.get(code)
        if ok is None:
            ok = code.co_filename.startswith(self.prefix)
            if ok and self.mode == "line" and self.line_functions:
                ok = code.co_qualname in self.line_functions
            self._codes[code] = ok
        return ok

    @staticmethod
    def _is_numpy(callable_):
        # Python-level numpy functions produce no C_RETURN event; only C callables are
        # tracked (the object loops that call back into Point2D are all C level)
        if isinstance(callable_, (types.FunctionType, types.MethodType)):
            return False
        mod = getattr(callable_, "__module__", None) or ""
        if mod.startswith("numpy"):
            return True
        cls = type(callable_)
        return (getattr(cls, "__module__", "") or "").startswith("numpy")

    def install(self):
        mon.use_tool_id(FAULT_TOOL, "vf-faults")
        mon.register_callback(FAULT_TOOL, E.CALL, self._on_call)
        mon.register_callback(FAULT_TOOL, E.C_RETURN, self._on_cret)
        mon.register_callback(FAULT_TOOL, E.C_RAISE, self._on_cret)
        mon.register_callback(FAULT_TOOL, E.LINE, self._on_line)

    def uninstall(self):
        self.disarm()
        mon.set_events(FAULT_TOOL, 0)
        for ev in (E.CALL, E.C_RETURN, E.C_RAISE, E.LINE):
            mon.register_callback(FAULT_TOOL, ev, None)
        mon.free_tool_id(FAULT_TOOL)

    # -- dry run ---------------------------------------------------------------------
    def survey_start(self):
        self.count = 0
        self.sites = []
        self._occ = {}
        self.np_depth = 0
        self.surveying = True
        self.target = None
        events = E.CALL | E.C_RETURN | E.C_RAISE
        if self.mode == "line":
            events |= E.LINE
        mon.set_events(FAULT_TOOL, events)

    def survey_stop(self):
        self.surveying = False
        mon.set_events(FAULT_TOOL, 0)

    # -- armed run -------------------------------------------------------------------
    def arm(self, k):
        """fire at the k-th admissible boundary (1-based) of the surveyed operation"""
        code, where, ordinal = self.sites[k - 1]
        self.target = (code, where, ordinal)
        self._seen = 0
        self.fired_at = None
        self._local_code = code
        mon.set_local_events(FAULT_TOOL, code, E.CALL if self.mode == "call" else E.LINE)

    def disarm(self):
        if self._local_code is not None:
            try:
                mon.set_local_events(FAULT_TOOL, self._local_code, 0)
            except ValueError:
                pass
            self._local_code = None
        self.target = None

    def site_name(self, k):
        code, where, ordinal = self.sites[k - 1]
        return (code.co_qualname, where)

    # -- callbacks -------------------------------------------------------------------
    def _on_call(self, code, offset, callable_, arg0):
        if self.surveying:
            if self._is_numpy(callable_):
                self.np_depth += 1
                if self.mode == "call" and self._in_lib(code):
                    key = (code, offset)
                    self._occ[key] = self._occ.get(key, 0) + 1
                return
            if self.mode != "call" or not self._in_lib(code):
                return
            key = (code, offset)
            n = self._occ.get(key, 0) + 1
            self._occ[key] = n
            if self.np_depth:
                return
            self.count += 1
            self.sites.append((code, offset, n))
            return
        target = self.target
        if target is None or self.mode != "call" or code is not target[0] or offset != target[1]:
            return
        self._seen += 1
        if self._seen == target[2]:
            self.fired_at = (code.co_qualname, offset, getattr(callable_, "__qualname__", repr(callable_)))
            self.target = None
            raise InjectedFault("call boundary at %s+%d (occurrence %d)" % (code.co_qualname, offset, self._seen))

    def _on_cret(self, code, offset, callable_, arg0):
        if self.surveying and self.np_depth and self._is_numpy(callable_):
            self.np_depth -= 1

    def _on_line(self, code, line):
        if self.mode != "line":
            return
        if self.surveying:
            if not self._in_lib(code):
                return
            key = (code, line)
            n = self._occ.get(key, 0) + 1
            self._occ[key] = n
            if self.np_depth:
                return
            self.count += 1
            self.sites.append((code, line, n))
            return
        target = self.target
        if target is None or code is not target[0] or line != target[1]:
            return
        self._seen += 1
        if self._seen == target[2]:
            self.fired_at = (code.co_qualname, line, "line")
            self.target = None
            raise InjectedFault("statement at %s:%d (occurrence %d)" % (code.co_qualname, line, self._seen))
