"""sys.monitoring tools: reach counters, logical step budget, source-free failpoints."""
from __future__ import annotations

import os
import sys

mon = sys.monitoring
E = mon.events

REACH_TOOL = 3
STEP_TOOL = 4
FAULT_TOOL = 5


def shapepy_dir():
    import shapepy

    return os.path.dirname(os.path.abspath(shapepy.__file__)) + os.sep


# ----------------------------------------------------------------------------------
# reach: which shapepy functions were entered (each reported once, then disabled)
# ----------------------------------------------------------------------------------


class Reach:
    def __init__(self):
        self.seen = set()
        self.prefix = shapepy_dir()
        self.active = False

    def start(self):
        if self.active:
            return
        try:
            mon.use_tool_id(REACH_TOOL, "vf-reach")
        except ValueError:
            return
        mon.register_callback(REACH_TOOL, E.PY_START, self._cb)
        mon.set_events(REACH_TOOL, E.PY_START)
        self.active = True

    def _cb(self, code, offset):
        fn = code.co_filename
        if fn.startswith(self.prefix):
            self.seen.add(fn[len(self.prefix):-3] + "." + code.co_qualname)
        return mon.DISABLE

    def stop(self):
        if not self.active:
            return
        mon.set_events(REACH_TOOL, 0)
        mon.register_callback(REACH_TOOL, E.PY_START, None)
        mon.free_tool_id(REACH_TOOL)
        self.active = False


# ----------------------------------------------------------------------------------
# logical steps: number of shapepy function entries
# ----------------------------------------------------------------------------------


class StepBudgetExceeded(BaseException):
    pass


class Steps:
    """Counts PY_START events in shapepy frames; raises when a budget is exceeded."""

    def __init__(self):
        self.prefix = shapepy_dir()
        self.count = 0
        self.budget = None
        self.active = False
        self._codes = {}

    def start(self):
        mon.use_tool_id(STEP_TOOL, "vf-steps")
        mon.register_callback(STEP_TOOL, E.PY_START, self._cb)
        mon.set_events(STEP_TOOL, E.PY_START)
        self.active = True

    def _cb(self, code, offset):
        ok = self._codes.get(code)
        if ok is None:
            ok = code.co_filename.startswith(self.prefix)
            self._codes[code] = ok
        if not ok:
            return mon.DISABLE
        self.count += 1
        if self.budget is not None and self.count > self.budget:
            self.budget = None
            raise StepBudgetExceeded()

    def reset(self, budget=None):
        self.count = 0
        self.budget = budget

    def stop(self):
        if not self.active:
            return
        mon.set_events(STEP_TOOL, 0)
        mon.register_callback(STEP_TOOL, E.PY_START, None)
        mon.free_tool_id(STEP_TOOL)
        self.active = False


# ----------------------------------------------------------------------------------
# failpoints
# ----------------------------------------------------------------------------------


class InjectedFault(BaseException):
    """Raised by the injector at an internal call boundary / statement"""


class Injector:
    """Counts, and optionally raises at, the k-th event of a kind inside shapepy code.

    mode "call": CALL events whose *caller* code lies in shapepy (so the exception surfaces
    at a call instruction of a shapepy frame, exactly as an error raised by the callee).
    mode "line": LINE events in the named shapepy functions (asynchronous interrupt model).
    No injection while a numpy callable is on the stack: numpy object loops keep calling
    back with the error indicator set and turn the injected exception into a SystemError
    that no real interpreter run can produce.
    """

    def __init__(self, mode="call", line_functions=None):
        self.mode = mode
        self.prefix = shapepy_dir()
        self.line_functions = set(line_functions or ())
        self.count = 0
        self.target = None
        self.fired_at = None
        self.sites = []
        self.record_sites = False
        self.np_depth = 0
        self._codes = {}
        self.armed = False

    def _in_lib(self, code):
        ok = self._codes.get(code)
        if ok is None:
            ok = code.co_filename.startswith(self.prefix)
            if ok and self.mode == "line" and self.line_functions:
                ok = code.co_qualname in self.line_functions
            self._codes[code] = ok
        return ok

    @staticmethod
    def _is_numpy(callable_):
        mod = getattr(callable_, "__module__", None) or ""
        if mod.startswith("numpy"):
            return True
        cls = type(callable_)
        return (getattr(cls, "__module__", "") or "").startswith("numpy")

    def install(self):
        mon.use_tool_id(FAULT_TOOL, "vf-faults")
        if self.mode == "call":
            mon.register_callback(FAULT_TOOL, E.CALL, self._on_call)
            mon.register_callback(FAULT_TOOL, E.C_RETURN, self._on_cret)
            mon.register_callback(FAULT_TOOL, E.C_RAISE, self._on_cret)
            mon.set_events(FAULT_TOOL, E.CALL | E.C_RETURN | E.C_RAISE)
        else:
            mon.register_callback(FAULT_TOOL, E.LINE, self._on_line)
            mon.register_callback(FAULT_TOOL, E.CALL, self._on_call_np)
            mon.register_callback(FAULT_TOOL, E.C_RETURN, self._on_cret)
            mon.register_callback(FAULT_TOOL, E.C_RAISE, self._on_cret)
            mon.set_events(FAULT_TOOL, E.LINE | E.CALL | E.C_RETURN | E.C_RAISE)

    def uninstall(self):
        mon.set_events(FAULT_TOOL, 0)
        for ev in (E.CALL, E.C_RETURN, E.C_RAISE, E.LINE):
            mon.register_callback(FAULT_TOOL, ev, None)
        mon.free_tool_id(FAULT_TOOL)

    def arm(self, target=None, record_sites=False):
        self.count = 0
        self.target = target
        self.fired_at = None
        self.sites = []
        self.record_sites = record_sites
        self.np_depth = 0
        self.armed = True

    def disarm(self):
        self.armed = False
        self.target = None

    # -- callbacks -------------------------------------------------------------------
    def _on_call(self, code, offset, callable_, arg0):
        if not self.armed:
            return
        if self._is_numpy(callable_):
            self.np_depth += 1
            return
        if self.np_depth:
            return
        if not self._in_lib(code):
            return
        self.count += 1
        if self.record_sites:
            self.sites.append((code.co_qualname, offset))
        if self.target is not None and self.count == self.target:
            self.fired_at = (code.co_qualname, offset, getattr(callable_, "__qualname__", repr(callable_)))
            self.target = None
            raise InjectedFault("call boundary %d at %s+%d" % (self.count, code.co_qualname, offset))

    def _on_call_np(self, code, offset, callable_, arg0):
        if self.armed and self._is_numpy(callable_):
            self.np_depth += 1

    def _on_cret(self, code, offset, callable_, arg0):
        if self.armed and self.np_depth and self._is_numpy(callable_):
            self.np_depth -= 1

    def _on_line(self, code, line):
        if not self.armed or self.np_depth:
            return
        if not self._in_lib(code):
            return
        self.count += 1
        if self.record_sites:
            self.sites.append((code.co_qualname, line))
        if self.target is not None and self.count == self.target:
            self.fired_at = (code.co_qualname, line, "line")
            self.target = None
            raise InjectedFault("statement %d at %s:%d" % (self.count, code.co_qualname, line))
