"""Exact reference geometry -- the trusted base of every monitor.

Pure Python, fractions.Fraction only.  No numpy, no pynurbs and no code shared with
shapepy.  A *point* is a pair (Fraction, Fraction); a *segment* is a tuple of control
points (Bezier, degree = len-1); a *curve* is a tuple of segments forming a closed chain.
"""
from __future__ import annotations

import math
from fractions import Fraction as Fr

# ----------------------------------------------------------------------------------
# numbers
# ----------------------------------------------------------------------------------


class Malformed(Exception):
    """A number that is neither int, well-formed Fraction nor float"""


def is_wellformed_fraction(v) -> bool:
    return (
        isinstance(v, Fr)
        and type(v.numerator) is int
        and type(v.denominator) is int
    )


def to_fr(v) -> Fr:
    """Exact rational denoted by a library number.

    int / Fraction as is; float (and numpy floating) is the dyadic rational it denotes.
    A Fraction whose numerator/denominator are not ints (the Python 3.12
    limit_denominator(1e9) defect) is read through float, as the library would.
    """
    if type(v) is int or type(v) is bool:
        return Fr(int(v))
    if isinstance(v, Fr):
        n, d = v._numerator, v._denominator  # type: ignore[attr-defined]
        if type(n) is int and type(d) is int:
            return v
        return Fr(float(n)) / Fr(float(d))
    try:
        import numbers

        if isinstance(v, numbers.Integral):
            return Fr(int(v))
    except Exception:  # pragma: no cover
        pass
    f = float(v)
    if f != f or f in (float("inf"), float("-inf")):
        raise Malformed(repr(v))
    return Fr(f)


def pt(p):
    return (to_fr(p[0]), to_fr(p[1]))


# ----------------------------------------------------------------------------------
# segments
# ----------------------------------------------------------------------------------


def evaluate(ctrl, t):
    """de Casteljau"""
    pts = list(ctrl)
    t = Fr(t) if not isinstance(t, Fr) else t
    s = 1 - t
    while len(pts) > 1:
        pts = [
            (s * a[0] + t * b[0], s * a[1] + t * b[1])
            for a, b in zip(pts[:-1], pts[1:])
        ]
    return pts[0]


def split(ctrl, t):
    """Returns the control points of the two halves at parameter t"""
    pts = list(ctrl)
    t = Fr(t) if not isinstance(t, Fr) else t
    s = 1 - t
    left, right = [pts[0]], [pts[-1]]
    while len(pts) > 1:
        pts = [
            (s * a[0] + t * b[0], s * a[1] + t * b[1])
            for a, b in zip(pts[:-1], pts[1:])
        ]
        left.append(pts[0])
        right.append(pts[-1])
    return tuple(left), tuple(reversed(right))


def subsegment(ctrl, t0, t1):
    """Control points of ctrl restricted to [t0, t1]"""
    t0, t1 = Fr(t0), Fr(t1)
    if t1 == 1:
        right = ctrl if t0 == 0 else split(ctrl, t0)[1]
        return tuple(right)
    left, _ = split(ctrl, t1)
    if t0 == 0:
        return tuple(left)
    return split(left, t0 / t1)[1]


def binom(n, k):
    return math.comb(n, k)


def power_basis(ctrl):
    """Returns (xcoefs, ycoefs), lowest power first"""
    n = len(ctrl) - 1
    xs = [Fr(0)] * (n + 1)
    ys = [Fr(0)] * (n + 1)
    for j in range(n + 1):
        # coefficient of t^j : C(n,j) * sum_{i<=j} (-1)^(j-i) C(j,i) P_i
        sx = Fr(0)
        sy = Fr(0)
        for i in range(j + 1):
            sign = -1 if (j - i) % 2 else 1
            c = sign * binom(j, i)
            sx += c * ctrl[i][0]
            sy += c * ctrl[i][1]
        xs[j] = binom(n, j) * sx
        ys[j] = binom(n, j) * sy
    return xs, ys


def poly_mul(a, b):
    out = [Fr(0)] * (len(a) + len(b) - 1)
    for i, ai in enumerate(a):
        if ai == 0:
            continue
        for j, bj in enumerate(b):
            out[i + j] += ai * bj
    return out


def poly_pow(a, k):
    out = [Fr(1)]
    for _ in range(k):
        out = poly_mul(out, a)
    return out


def poly_der(a):
    return [i * a[i] for i in range(1, len(a))] or [Fr(0)]


def poly_int01(a):
    return sum((c / (i + 1) for i, c in enumerate(a)), Fr(0))


def poly_eval(a, t):
    v = Fr(0)
    for c in reversed(a):
        v = v * t + c
    return v


def derivative_ctrl(ctrl, k=1):
    """Control points of the k-th derivative (a Bezier of degree n-k).
    For k > n returns a single zero point."""
    pts = list(ctrl)
    for _ in range(k):
        n = len(pts) - 1
        if n <= 0:
            return ((Fr(0), Fr(0)),)
        pts = [
            (n * (b[0] - a[0]), n * (b[1] - a[1]))
            for a, b in zip(pts[:-1], pts[1:])
        ]
    return tuple(pts)


def bbox(ctrl):
    xs = [p[0] for p in ctrl]
    ys = [p[1] for p in ctrl]
    return min(xs), min(ys), max(xs), max(ys)


def curve_bbox(curve):
    boxes = [bbox(s) for s in curve]
    return (
        min(b[0] for b in boxes),
        min(b[1] for b in boxes),
        max(b[2] for b in boxes),
        max(b[3] for b in boxes),
    )


def curves_bbox(curves):
    boxes = [curve_bbox(c) for c in curves]
    return (
        min(b[0] for b in boxes),
        min(b[1] for b in boxes),
        max(b[2] for b in boxes),
        max(b[3] for b in boxes),
    )


def diameter(box) -> float:
    return float(max(box[2] - box[0], box[3] - box[1]))


# ----------------------------------------------------------------------------------
# winding number
# ----------------------------------------------------------------------------------


class TooClose(Exception):
    """The point is on, or too close to, the boundary for the oracle to answer"""


class OnBoundary(TooClose):
    """The point is exactly on a straight piece"""


def _cross(ax, ay, bx, by):
    return ax * by - ay * bx


def _chord(a, b, p):
    """Signed half-open crossing of the chord a->b with the ray from p towards +x"""
    ay, by, py = a[1], b[1], p[1]
    if ay <= py:
        if by > py:
            if _cross(b[0] - a[0], by - ay, p[0] - a[0], py - ay) > 0:
                return 1
    else:
        if by <= py:
            if _cross(b[0] - a[0], by - ay, p[0] - a[0], py - ay) < 0:
                return -1
    return 0


def dist2_point_line_segment(a, b, p):
    """Exact squared distance of p to segment ab"""
    dx, dy = b[0] - a[0], b[1] - a[1]
    px, py = p[0] - a[0], p[1] - a[1]
    den = dx * dx + dy * dy
    if den == 0:
        return px * px + py * py
    t = (px * dx + py * dy) / den
    if t <= 0:
        return px * px + py * py
    if t >= 1:
        qx, qy = p[0] - b[0], p[1] - b[1]
        return qx * qx + qy * qy
    c = _cross(dx, dy, px, py)
    return c * c / den


def point_on_line_segment(a, b, p) -> bool:
    if _cross(b[0] - a[0], b[1] - a[1], p[0] - a[0], p[1] - a[1]) != 0:
        return False
    return (
        min(a[0], b[0]) <= p[0] <= max(a[0], b[0])
        and min(a[1], b[1]) <= p[1] <= max(a[1], b[1])
    )


def _seg_winding(ctrl, p, delta, delta2, depth):
    x0, y0, x1, y1 = bbox(ctrl)
    if (
        p[0] < x0 - delta
        or p[0] > x1 + delta
        or p[1] < y0 - delta
        or p[1] > y1 + delta
    ):
        return _chord(ctrl[0], ctrl[-1], p)
    if len(ctrl) == 2:
        if delta == 0:
            if point_on_line_segment(ctrl[0], ctrl[1], p):
                raise OnBoundary()
        elif dist2_point_line_segment(ctrl[0], ctrl[1], p) < delta2:
            raise TooClose()
        return _chord(ctrl[0], ctrl[1], p)
    if depth == 0:
        raise TooClose()
    # small piece still containing the point: give up early
    if delta and max(x1 - x0, y1 - y0) * 8 < delta:
        raise TooClose()
    left, right = split(ctrl, Fr(1, 2))
    return _seg_winding(left, p, delta, delta2, depth - 1) + _seg_winding(
        right, p, delta, delta2, depth - 1
    )


def winding(curve, p, delta=0) -> int:
    """Exact winding number of the closed curve about p.

    With delta > 0 an answer certifies that p is at least delta (Chebyshev, hence
    Euclidean) from every piece of the curve; otherwise TooClose is raised.
    """
    delta = Fr(delta)
    delta2 = delta * delta
    total = 0
    for ctrl in curve:
        total += _seg_winding(ctrl, p, delta, delta2, 48)
    return total


def clearance_ok(curve, p, delta) -> bool:
    try:
        winding(curve, p, delta)
        return True
    except TooClose:
        return False


# ----------------------------------------------------------------------------------
# integrals
# ----------------------------------------------------------------------------------


def seg_moment_dy(ctrl, ex, ey):
    """int_segment x^ex y^ey dy   (exact)"""
    xs, ys = power_basis(ctrl)
    integrand = poly_mul(poly_mul(poly_pow(xs, ex), poly_pow(ys, ey)), poly_der(ys))
    return poly_int01(integrand)


def moment(curve, a, b):
    """int over the region enclosed (signed by orientation) of x^a y^b"""
    total = Fr(0)
    for ctrl in curve:
        total += seg_moment_dy(ctrl, a + 1, b)
    return total / (a + 1)


def signed_area(curve):
    return moment(curve, 0, 0)


def orientation(curve) -> int:
    a = signed_area(curve)
    return 1 if a > 0 else (-1 if a < 0 else 0)


def shoelace(vertices):
    n = len(vertices)
    s = Fr(0)
    for i in range(n):
        a, b = vertices[i], vertices[(i + 1) % n]
        s += a[0] * b[1] - a[1] * b[0]
    return s / 2


def chord_length(curve) -> float:
    """Sum of the lengths of the control polygons (upper bound of the arc length)"""
    total = 0.0
    for ctrl in curve:
        for a, b in zip(ctrl[:-1], ctrl[1:]):
            total += math.hypot(float(b[0] - a[0]), float(b[1] - a[1]))
    return total


# ----------------------------------------------------------------------------------
# regions (snapshots, see vf/snapshot.py)
#   ("empty",) ("whole",) ("simple", curve) ("connected", [simple...])
#   ("disjoint", [simple|connected ...])
# ----------------------------------------------------------------------------------


def region_curves(region):
    kind = region[0]
    if kind in ("empty", "whole"):
        return []
    if kind == "simple":
        return [region[1]]
    out = []
    for sub in region[1]:
        out += region_curves(sub)
    return out


def simple_contains(curve, p, delta=0, orient=None) -> bool:
    w = winding(curve, p, delta)
    if orient is None:
        orient = orientation(curve)
    if orient > 0:
        return w == 1
    return w == 0


def region_contains(region, p, delta=0) -> bool:
    """Interior membership; raises TooClose near a boundary"""
    kind = region[0]
    if kind == "empty":
        return False
    if kind == "whole":
        return True
    if kind == "simple":
        return simple_contains(region[1], p, delta)
    if kind == "connected":
        # evaluate all (so that clearance is certified against every boundary)
        answers = [region_contains(sub, p, delta) for sub in region[1]]
        return all(answers)
    if kind == "disjoint":
        answers = [region_contains(sub, p, delta) for sub in region[1]]
        return any(answers)
    raise ValueError(kind)


def region_clear(region, p, delta) -> bool:
    for c in region_curves(region):
        if not clearance_ok(c, p, delta):
            return False
    return True


def region_moment(region, a, b):
    """Moment with the library's convention: sum over all boundaries"""
    return sum((moment(c, a, b) for c in region_curves(region)), Fr(0))


def point_on_curve_exact(curve, p) -> bool:
    """Exact for straight curves"""
    for ctrl in curve:
        assert len(ctrl) == 2
        if point_on_line_segment(ctrl[0], ctrl[1], p):
            return True
    return False


# ----------------------------------------------------------------------------------
# polygons: exact predicates
# ----------------------------------------------------------------------------------


def is_polygonal(curve) -> bool:
    return all(len(s) == 2 for s in curve)


def polygon_vertices(curve):
    return [s[0] for s in curve]


def seg_seg(a0, a1, b0, b1):
    """Classify the intersection of two closed line segments.

    Returns ("none",) | ("proper", t, s) interior-interior transversal crossing
          | ("touch", t, s) a single common point involving an end point
          | ("overlap",) collinear with a common piece (more than a point)
          | ("touch", t, s) collinear sharing exactly one end point
    """
    if a0 == a1 or b0 == b1:
        # degenerate (zero-length) segment: a point
        if a0 == a1 and b0 == b1:
            return ("touch", Fr(0), Fr(0)) if a0 == b0 else ("none",)
        if a0 == a1:
            if not point_on_line_segment(b0, b1, a0):
                return ("none",)
            ax = 0 if b1[0] != b0[0] else 1
            return ("touch", Fr(0), (a0[ax] - b0[ax]) / (b1[ax] - b0[ax]))
        if not point_on_line_segment(a0, a1, b0):
            return ("none",)
        ax = 0 if a1[0] != a0[0] else 1
        return ("touch", (b0[ax] - a0[ax]) / (a1[ax] - a0[ax]), Fr(0))
    d0 = (a1[0] - a0[0], a1[1] - a0[1])
    d1 = (b1[0] - b0[0], b1[1] - b0[1])
    diff = (b0[0] - a0[0], b0[1] - a0[1])
    den = _cross(d0[0], d0[1], d1[0], d1[1])
    if den != 0:
        t = _cross(diff[0], diff[1], d1[0], d1[1]) / den
        s = _cross(diff[0], diff[1], d0[0], d0[1]) / den
        if t < 0 or t > 1 or s < 0 or s > 1:
            return ("none",)
        if 0 < t < 1 and 0 < s < 1:
            return ("proper", t, s)
        return ("touch", t, s)
    if _cross(d0[0], d0[1], diff[0], diff[1]) != 0:
        return ("none",)
    # collinear: project on the dominant axis
    ax = 0 if abs(d0[0]) >= abs(d0[1]) else 1
    lo_a, hi_a = sorted((a0[ax], a1[ax]))
    lo_b, hi_b = sorted((b0[ax], b1[ax]))
    lo, hi = max(lo_a, lo_b), min(hi_a, hi_b)
    if lo > hi:
        return ("none",)
    if lo == hi:
        # single common point
        comp = lo
        t = (comp - a0[ax]) / (a1[ax] - a0[ax])
        s = (comp - b0[ax]) / (b1[ax] - b0[ax])
        return ("touch", t, s)
    return ("overlap",)


def polygon_is_simple(curve) -> bool:
    """No zero-length edge, no two edges meet except consecutive ones at their joint,
    no spike (consecutive collinear edges that fold back)."""
    n = len(curve)
    if n < 3:
        return False
    for s in curve:
        if s[0] == s[1]:
            return False
    for i in range(n):
        for j in range(i + 1, n):
            res = seg_seg(curve[i][0], curve[i][1], curve[j][0], curve[j][1])
            adjacent = j == i + 1 or (i == 0 and j == n - 1)
            if not adjacent:
                if res[0] != "none":
                    return False
            else:
                if res[0] == "overlap" or res[0] == "proper":
                    return False
    return True


def polygon_pair_contacts(ca, cb):
    """Exact contact classification of two polygonal curves.

    Returns dict(proper=[(i, j, t, s)...], touch=[...], overlap=[(i, j)...])
    """
    out = {"proper": [], "touch": [], "overlap": []}
    boxes_b = [bbox(s) for s in cb]
    for i, sa in enumerate(ca):
        xa0, ya0, xa1, ya1 = bbox(sa)
        for j, sb in enumerate(cb):
            xb0, yb0, xb1, yb1 = boxes_b[j]
            if xa1 < xb0 or xb1 < xa0 or ya1 < yb0 or yb1 < ya0:
                continue
            res = seg_seg(sa[0], sa[1], sb[0], sb[1])
            if res[0] == "proper":
                out["proper"].append((i, j, res[1], res[2]))
            elif res[0] == "touch":
                out["touch"].append((i, j, res[1], res[2]))
            elif res[0] == "overlap":
                out["overlap"].append((i, j))
    return out


def polygon_min_clearance2(ca, cb):
    """Minimum squared distance between the vertices of one polygon and the edges
    of the other (both directions)."""
    best = None
    for c0, c1 in ((ca, cb), (cb, ca)):
        for s in c0:
            v = s[0]
            for e in c1:
                d2 = dist2_point_line_segment(e[0], e[1], v)
                if best is None or d2 < best:
                    best = d2
    return best


# ----------------------------------------------------------------------------------
# re-segmentation equivalence
# ----------------------------------------------------------------------------------


def _rotate_min(seq):
    n = len(seq)
    k = min(range(n), key=lambda i: seq[i])
    return tuple(seq[k:] + seq[:k])


def polygon_canonical(curve):
    """Vertices with collinear (straight-through) vertices removed, rotated so that the
    smallest vertex comes first.  Exact."""
    verts = [s[0] for s in curve]
    # drop duplicates of consecutive equal vertices (zero-length edges)
    verts = [v for i, v in enumerate(verts) if v != verts[i - 1] or len(verts) == 1]
    changed = True
    while changed and len(verts) > 2:
        changed = False
        n = len(verts)
        for i in range(n):
            a, b, c = verts[i - 1], verts[i], verts[(i + 1) % n]
            cr = _cross(b[0] - a[0], b[1] - a[1], c[0] - b[0], c[1] - b[1])
            if cr == 0:
                dot = (b[0] - a[0]) * (c[0] - b[0]) + (b[1] - a[1]) * (c[1] - b[1])
                if dot > 0:
                    verts.pop(i)
                    changed = True
                    break
    return _rotate_min(verts)


def same_polygon_exact(c0, c1) -> bool:
    return polygon_canonical(c0) == polygon_canonical(c1)


# --- float helpers for tolerance-based comparison ----------------------------------


def _f(p):
    return (float(p[0]), float(p[1]))


def flatten(curve, nsub=16):
    """Float polyline approximating the curve (junctions exact, nsub pieces per curved
    segment).  Returns list of points, closed implicitly."""
    out = []
    for ctrl in curve:
        if len(ctrl) == 2:
            out.append(_f(ctrl[0]))
            continue
        fc = [_f(p) for p in ctrl]
        for k in range(nsub):
            t = k / nsub
            pts = fc
            while len(pts) > 1:
                pts = [
                    ((1 - t) * a[0] + t * b[0], (1 - t) * a[1] + t * b[1])
                    for a, b in zip(pts[:-1], pts[1:])
                ]
            out.append(pts[0])
    return out


def _dist_point_seg_f(a, b, p):
    dx, dy = b[0] - a[0], b[1] - a[1]
    px, py = p[0] - a[0], p[1] - a[1]
    den = dx * dx + dy * dy
    if den == 0:
        return math.hypot(px, py)
    t = (px * dx + py * dy) / den
    t = 0.0 if t < 0 else (1.0 if t > 1 else t)
    return math.hypot(px - t * dx, py - t * dy)


def _bez_f(fc, t):
    pts = fc
    while len(pts) > 1:
        pts = [
            ((1 - t) * a[0] + t * b[0], (1 - t) * a[1] + t * b[1])
            for a, b in zip(pts[:-1], pts[1:])
        ]
    return pts[0]


def _dist_point_bezier_f(fc, p, tol):
    """Distance from p to a Bezier given by float control points, to within tol,
    by subdivision with the convex-hull (bounding box) lower bound."""
    best = min(math.hypot(fc[0][0] - p[0], fc[0][1] - p[1]),
               math.hypot(fc[-1][0] - p[0], fc[-1][1] - p[1]))
    stack = [fc]
    while stack:
        c = stack.pop()
        xs = [q[0] for q in c]
        ys = [q[1] for q in c]
        x0, x1, y0, y1 = min(xs), max(xs), min(ys), max(ys)
        dx = max(x0 - p[0], 0.0, p[0] - x1)
        dy = max(y0 - p[1], 0.0, p[1] - y1)
        low = math.hypot(dx, dy)
        if low >= best:
            continue
        d = _dist_point_seg_f(c[0], c[-1], p)
        # flatness: distance of the inner control points from the chord bounds the
        # deviation of the piece from its chord
        flat = 0.0
        for q in c[1:-1]:
            flat = max(flat, _dist_point_seg_f(c[0], c[-1], q))
        if len(c) == 2 or flat < tol:
            best = min(best, d)
            continue
        best = min(best, math.hypot(c[0][0] - p[0], c[0][1] - p[1]),
                   math.hypot(c[-1][0] - p[0], c[-1][1] - p[1]))
        # split at 1/2
        left, right = [c[0]], [c[-1]]
        pts = c
        while len(pts) > 1:
            pts = [
                ((a[0] + b[0]) / 2, (a[1] + b[1]) / 2)
                for a, b in zip(pts[:-1], pts[1:])
            ]
            left.append(pts[0])
            right.append(pts[-1])
        right.reverse()
        stack.append(left)
        stack.append(right)
    return best


def dist_point_curve(curve, p, tol=1e-9) -> float:
    """Float distance from p to the curve (accurate to ~tol)"""
    pf = _f(p)
    best = float("inf")
    for ctrl in curve:
        fc = [_f(q) for q in ctrl]
        if len(fc) == 2:
            d = _dist_point_seg_f(fc[0], fc[1], pf)
        else:
            # quick reject through the bounding box
            xs = [q[0] for q in fc]
            ys = [q[1] for q in fc]
            dx = max(min(xs) - pf[0], 0.0, pf[0] - max(xs))
            dy = max(min(ys) - pf[1], 0.0, pf[1] - max(ys))
            if math.hypot(dx, dy) >= best:
                continue
            d = _dist_point_bezier_f(fc, pf, tol)
        if d < best:
            best = d
    return best


def curve_samples(curve, per_segment=3):
    """Junctions and interior samples of every segment (exact)"""
    out = []
    for ctrl in curve:
        out.append(ctrl[0])
        for k in range(1, per_segment + 1):
            out.append(evaluate(ctrl, Fr(k, per_segment + 1)))
    return out


def same_curve(c0, c1, tol=0.0):
    """Is c1 a re-segmentation of c0 (same point set, same orientation)?

    tol == 0 and both polygonal: exact decision through canonical forms.
    Otherwise: every junction and three interior samples of each piece of c1 lie within
    tol of c0 and vice versa, and the signed areas agree to tol * length.

    Returns (bool, reason)
    """
    if tol == 0 and is_polygonal(c0) and is_polygonal(c1):
        if polygon_canonical(c0) == polygon_canonical(c1):
            return True, "exact canonical polygons equal"
        return False, "canonical polygons differ"
    tol = float(tol) if tol else 1e-9
    a0, a1 = signed_area(c0), signed_area(c1)
    length = max(chord_length(c0), chord_length(c1), 1e-300)
    if (a0 > 0) != (a1 > 0) and abs(float(a0 - a1)) > tol * length:
        return False, "orientation differs (areas %g vs %g)" % (float(a0), float(a1))
    if abs(float(a0 - a1)) > 2 * tol * length + 1e-12 * abs(float(a0)):
        return False, "signed areas differ: %r vs %r" % (float(a0), float(a1))
    for ca, cb, name in ((c1, c0, "new on old"), (c0, c1, "old on new")):
        for q in curve_samples(ca, 3):
            d = dist_point_curve(cb, q, tol * 0.1)
            if d > tol:
                return False, "%s: point %s is %g away" % (name, _f(q), d)
    return True, "sampled within %g" % tol


def same_region(r0, r1, tol=0.0):
    """Structure-insensitive comparison of two regions given as snapshots: same kind
    class (empty/whole/defined) and the same multiset of boundary curves."""
    k0, k1 = r0[0], r1[0]
    if k0 in ("empty", "whole") or k1 in ("empty", "whole"):
        return (k0 == k1), "singleton kinds %s %s" % (k0, k1)
    cs0, cs1 = region_curves(r0), list(region_curves(r1))
    if len(cs0) != len(cs1):
        return False, "number of boundaries %d vs %d" % (len(cs0), len(cs1))
    for c in cs0:
        for j, d in enumerate(cs1):
            ok, _ = same_curve(c, d, tol)
            if ok:
                cs1.pop(j)
                break
        else:
            return False, "a boundary has no counterpart"
    return True, "boundaries match"


# ----------------------------------------------------------------------------------
# subtended angle (C18)
# ----------------------------------------------------------------------------------


def subtended_angle(ctrl, p) -> float:
    """Continuous change of argument of (segment(t) - p), t: 0 -> 1, in radians.
    Exact subdivision until p is outside the box of each piece; float atan2 at the end."""
    total = 0.0
    stack = [(tuple(ctrl), 0)]
    while stack:
        c, depth = stack.pop()
        x0, y0, x1, y1 = bbox(c)
        outside = p[0] < x0 or p[0] > x1 or p[1] < y0 or p[1] > y1
        if outside or len(c) == 2 or depth > 40:
            if len(c) == 2 and not outside:
                if point_on_line_segment(c[0], c[1], p):
                    raise OnBoundary()
            if depth > 40 and not outside and len(c) > 2:
                raise TooClose()
            a = (float(c[0][0] - p[0]), float(c[0][1] - p[1]))
            b = (float(c[-1][0] - p[0]), float(c[-1][1] - p[1]))
            ang = math.atan2(a[0] * b[1] - a[1] * b[0], a[0] * b[0] + a[1] * b[1])
            total += ang
            continue
        left, right = split(c, Fr(1, 2))
        stack.append((left, depth + 1))
        stack.append((right, depth + 1))
    return total


# ----------------------------------------------------------------------------------
# closed forms
# ----------------------------------------------------------------------------------


def circle_arc_area(radius: float, ndiv: int) -> float:
    """Area enclosed by the library's quadratic n-arc 'circle' (closed form)"""
    theta = math.tau / ndiv
    h = math.tan(theta / 2)
    # polygon through the junctions + n parabolic caps;
    # cap between chord and quadratic arc with control point at distance: area = 2/3 * triangle
    tri = 0.5 * radius * radius * math.sin(theta)
    # triangle (start, ctrl, end) area:
    # start=(r,0), ctrl=(r, r h), end = r(cos th, sin th)
    ax, ay = 0.0, radius * h
    bx, by = radius * math.cos(theta) - radius, radius * math.sin(theta)
    cap_tri = 0.5 * abs(ax * by - ay * bx)
    return ndiv * (tri + (2.0 / 3.0) * cap_tri)


def circle_band(radius: float, ndiv: int):
    """(rmin, rmax) of the quadratic n-arc circle"""
    theta = math.tau / ndiv
    c = math.cos(theta / 2)
    mid = radius * (c + 1 / c) / 2
    return min(radius, mid), max(radius, mid)


# ----------------------------------------------------------------------------------
# exact subset decision for polygonal regions (C03)
# ----------------------------------------------------------------------------------


def _cut_pieces(curve, others):
    """pieces of the polygonal `curve` cut at every contact with the polygonal curves in
    `others`; returns list of (a, b) straight pieces"""
    pieces = []
    for seg in curve:
        a0, a1 = seg
        params = {Fr(0), Fr(1)}
        for other in others:
            for oseg in other:
                b0, b1 = oseg
                res = seg_seg(a0, a1, b0, b1)
                if res[0] in ("proper", "touch"):
                    params.add(res[1])
                elif res[0] == "overlap":
                    # end points of the other edge projected on this one
                    ax = 0 if abs(a1[0] - a0[0]) >= abs(a1[1] - a0[1]) else 1
                    for q in (b0, b1):
                        t = (q[ax] - a0[ax]) / (a1[ax] - a0[ax])
                        if 0 < t < 1:
                            params.add(t)
        srt = sorted(params)
        for t0, t1 in zip(srt[:-1], srt[1:]):
            pieces.append((evaluate(seg, t0), evaluate(seg, t1)))
    return pieces


def _locate(region, p):
    """'in' | 'out' | 'on' for a polygonal region (exact)"""
    for c in region_curves(region):
        for seg in c:
            if point_on_line_segment(seg[0], seg[1], p):
                return "on"
    return "in" if region_contains(region, p, 0) else "out"


def _edge_direction_at(region, p):
    """direction vector of the boundary edge of the region that contains p (p on boundary)"""
    for c in region_curves(region):
        for seg in c:
            if point_on_line_segment(seg[0], seg[1], p) and p != seg[0] and p != seg[1]:
                return (seg[1][0] - seg[0][0], seg[1][1] - seg[0][1])
    return None


def polygon_region_subset(rb, ra) -> bool:
    """Exact decision of  B subset of closure(A)  for regions with straight boundaries."""
    if rb[0] == "empty" or ra[0] == "whole":
        return True
    if rb[0] == "whole":
        return False
    if ra[0] == "empty":
        return False
    ca, cb = region_curves(ra), region_curves(rb)
    for curve in cb:
        for a, b in _cut_pieces(curve, ca):
            mid = ((a[0] + b[0]) / 2, (a[1] + b[1]) / 2)
            where = _locate(ra, mid)
            if where == "out":
                return False
            if where == "on":
                d = _edge_direction_at(ra, mid)
                if d is not None and d[0] * (b[0] - a[0]) + d[1] * (b[1] - a[1]) < 0:
                    return False  # shared piece traversed in opposite directions
    for curve in ca:
        for a, b in _cut_pieces(curve, cb):
            mid = ((a[0] + b[0]) / 2, (a[1] + b[1]) / 2)
            if _locate(rb, mid) == "in":
                return False
    return True


def polygon_curve_in_region(curve, ra, closed=True) -> bool:
    """every point of the polygonal closed curve lies in A (closed) / in the interior (open)"""
    if ra[0] == "whole":
        return True
    if ra[0] == "empty":
        return False
    ca = region_curves(ra)
    for a, b in _cut_pieces(curve, ca):
        for p in (a, ((a[0] + b[0]) / 2, (a[1] + b[1]) / 2)):
            where = _locate(ra, p)
            if where == "out" or (where == "on" and not closed):
                return False
    return True
