from __future__ import annotations

import argparse
import os
import sys


def main(argv=None):
    ap = argparse.ArgumentParser(prog="check")
    ap.add_argument("check", nargs="?")
    ap.add_argument("--tier", default=os.environ.get("VERIF_TIER", "quick"), choices=["quick", "thorough"])
    ap.add_argument("--seed", type=int, default=None)
    ap.add_argument("--replay")
    ap.add_argument("--selftest", action="store_true")
    ap.add_argument("--jobs", type=int, default=None)
    ap.add_argument("--only", help="comma separated case indices")
    ap.add_argument("--verbose", "-v", action="store_true")
    args = ap.parse_args(argv)
    from vf import runner

    if args.selftest:
        from vf import selftest

        return selftest.main()
    if not args.check:
        ap.error("check id required")
    cid = args.check.upper()
    if args.replay:
        return runner.replay(cid, args.replay)
    seed = args.seed if args.seed is not None else int(os.environ.get("VERIF_SEED", "0") or 0)
    only = [int(x) for x in args.only.split(",")] if args.only else None
    return runner.run_check(cid, args.tier, seed, jobs=args.jobs, only=only, verbose=args.verbose)


if __name__ == "__main__":
    sys.exit(main())
