"""Runtime-monitoring machinery for compmec/shapepy (see /verif/DESIGN.md)"""
