"""Executes the cases of one shard of one check and writes one JSON record per case."""
from __future__ import annotations

import argparse
import json
import random
import signal
import sys
import time
import traceback


class CaseTimeout(BaseException):
    pass


ALARM = {"fired": False}


def _alarm(signum, frame):
    ALARM["fired"] = True
    raise CaseTimeout()


class Ctx:
    def __init__(self, cid, tier, seed, index, verbose):
        self.cid = cid
        self.tier = tier
        self.seed = seed
        self.index = index
        self.verbose = verbose
        self.rng = random.Random("%s/%d/%d" % (cid, seed, index))

    def log(self, *args):
        if self.verbose:
            print(*args, file=sys.stderr)


def main(argv=None):
    ap = argparse.ArgumentParser()
    ap.add_argument("check")
    ap.add_argument("--tier", default="quick")
    ap.add_argument("--seed", type=int, default=0)
    ap.add_argument("--indices", required=True)
    ap.add_argument("--out", required=True)
    ap.add_argument("--verbose", action="store_true")
    args = ap.parse_args(argv)
    from vf import runner
    from vf import faults

    mod = runner.load_check(args.check)
    indices = [int(x) for x in args.indices.split(",") if x != ""]
    out = sys.stdout if args.out == "-" else open(args.out, "w")
    timeout = getattr(mod, "CASE_TIMEOUT", 60)
    signal.signal(signal.SIGALRM, _alarm)
    reach = faults.Reach()
    if getattr(mod, "USE_REACH", True):
        reach.start()
    setup = getattr(mod, "setup", None)
    if setup is not None:
        setup(args.tier)
    for index in indices:
        ctx = Ctx(args.check, args.tier, args.seed, index, args.verbose)
        t0 = time.time()
        before = set(reach.seen)
        ALARM["fired"] = False
        signal.alarm(timeout)
        try:
            rec = mod.case(ctx)
            if ALARM["fired"]:
                raise CaseTimeout()
        except CaseTimeout:
            rec = {"verdict": "inconclusive", "why": "watchdog: case exceeded %ds" % timeout,
                   "spec": getattr(ctx, "spec", None)}
        except BaseException as exc:  # a harness failure is never a violation
            if isinstance(exc, KeyboardInterrupt):
                raise
            rec = {"verdict": "inconclusive", "why": "harness error: %r" % (exc,),
                   "tb": traceback.format_exc()[-3000:], "spec": getattr(ctx, "spec", None), "harness_error": True}
        finally:
            signal.alarm(0)
        rec["index"] = index
        rec["t"] = round(time.time() - t0, 3)
        rec["reached"] = sorted(reach.seen - before) if index != indices[0] else sorted(reach.seen)
        rec.setdefault("monitors", {})
        if "key" not in rec:
            rec["key"] = runner.case_key(rec.get("spec"))
        out.write(json.dumps(rec, default=str) + "\n")
        out.flush()
    teardown = getattr(mod, "teardown", None)
    if teardown is not None:
        teardown()
    return 0


if __name__ == "__main__":
    sys.exit(main())
