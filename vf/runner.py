"""Sharding over subprocesses, watchdogs, log aggregation, evidence, replay."""
from __future__ import annotations

import hashlib
import importlib
import json
import os
import shutil
import subprocess
import sys
import tempfile
import time

ROOT = os.path.dirname(os.path.dirname(os.path.abspath(__file__)))
PY = os.environ.get("VF_PYTHON", "/venv/bin/python")


def repo_dir():
    return os.environ.get("VF_REPO", "/repo")


def child_env():
    env = dict(os.environ)
    env["PYTHONHASHSEED"] = env.get("VF_HASHSEED", "0")
    env["MPLBACKEND"] = "Agg"
    env["PYTHONPATH"] = os.path.join(repo_dir(), "src") + os.pathsep + ROOT
    env["PYTHONDONTWRITEBYTECODE"] = "1"
    env.setdefault("OMP_NUM_THREADS", "1")
    env.setdefault("OPENBLAS_NUM_THREADS", "1")
    env.setdefault("MPLCONFIGDIR", os.path.join(tempfile.gettempdir(), "vf-mpl"))
    return env


def load_check(cid):
    return importlib.import_module("vf.checks.%s" % cid.lower())


def load_findings():
    path = os.path.join(ROOT, "known_findings.json")
    with open(path) as fh:
        data = json.load(fh)
    return data


def case_key(spec) -> str:
    return hashlib.sha1(json.dumps(spec, sort_keys=True, default=str).encode()).hexdigest()[:16]


def run_check(cid, tier, seed, jobs=None, only=None, verbose=False):
    """Runs the check, writes evidence, prints verdict lines, returns exit code."""
    t0 = time.time()
    mod = load_check(cid)
    ncases = mod.budget(tier)
    indices = list(range(ncases)) if only is None else list(only)
    jobs = jobs or int(os.environ.get("VF_JOBS", "16"))
    per_shard = getattr(mod, "SHARD_SIZE", 25)
    shards = [indices[i:i + per_shard] for i in range(0, len(indices), per_shard)]
    scratch = tempfile.mkdtemp(prefix="vf-%s-" % cid.lower())
    env = child_env()
    case_timeout = getattr(mod, "CASE_TIMEOUT", 60)
    records = []
    lost = []
    try:
        running = []
        pending = list(enumerate(shards))
        shard_info = {}
        next_id = [len(shards)]

        def launch(k, idx):
            out = os.path.join(scratch, "shard%05d.jsonl" % k)
            cmd = [PY, "-m", "vf.worker", cid, "--tier", tier, "--seed", str(seed),
                   "--indices", ",".join(map(str, idx)), "--out", out]
            log = open(os.path.join(scratch, "shard%05d.log" % k), "w")
            proc = subprocess.Popen(cmd, cwd=ROOT, env=env, stdout=log, stderr=subprocess.STDOUT)
            deadline = time.time() + case_timeout * len(idx) * 1.2 + 60
            shard_info[k] = (idx, out, log)
            return (k, proc, deadline)

        while pending or running:
            while pending and len(running) < jobs:
                k, idx = pending.pop(0)
                running.append(launch(k, idx))
            time.sleep(0.05)
            still = []
            for k, proc, deadline in running:
                rc = proc.poll()
                if rc is None:
                    if time.time() > deadline:
                        proc.kill()
                        proc.wait()
                    else:
                        still.append((k, proc, deadline))
                        continue
                idx, out, log = shard_info[k]
                log.close()
                done = set()
                if os.path.exists(out):
                    with open(out) as fh:
                        for line in fh:
                            line = line.strip()
                            if not line:
                                continue
                            try:
                                rec = json.loads(line)
                            except ValueError:
                                continue
                            records.append(rec)
                            done.add(rec["index"])
                missing = [i for i in idx if i not in done]
                if missing:
                    with open(os.path.join(scratch, "shard%05d.log" % k)) as fh:
                        tail = fh.read()[-2000:]
                    # the case being executed when the shard died is the first missing one;
                    # the cases after it are re-run in a new shard
                    lost.append({"indices": missing[:1], "rc": proc.returncode, "log": tail})
                    if missing[1:]:
                        pending.append((next_id[0], missing[1:]))
                        next_id[0] += 1
            running = still
    finally:
        shutil.rmtree(scratch, ignore_errors=True)
    records.sort(key=lambda r: r["index"])
    return aggregate(cid, mod, tier, seed, records, lost, time.time() - t0, verbose, partial=only is not None)


def aggregate(cid, mod, tier, seed, records, lost, wall, verbose=False, partial=False):
    known = load_findings()
    open_findings = {f["id"]: f for f in known.get("findings", []) if f.get("status") == "open" and f["property"] == cid}
    verdicts = {"held": 0, "violated": 0, "known": 0, "inconclusive": 0}
    reasons = {}
    strata = {}
    monitors = {}
    reached = set()
    distinct = set()
    samples = []
    violations = []
    known_hits = {}
    max_steps = 0
    viol_strata = {}
    for rec in records:
        v = rec["verdict"]
        if v == "violated" and rec.get("finding") in open_findings:
            v = "known"
            known_hits.setdefault(rec["finding"], []).append(rec)
        elif v == "violated":
            violations.append(rec)
            viol_strata[rec.get("stratum", "-")] = viol_strata.get(rec.get("stratum", "-"), 0) + 1
        verdicts[v] = verdicts.get(v, 0) + 1
        if v == "inconclusive":
            r = rec.get("why", "?")[:80]
            reasons[r] = reasons.get(r, 0) + 1
        st = rec.get("stratum", "-")
        strata[st] = strata.get(st, 0) + 1
        for k, n in rec.get("monitors", {}).items():
            monitors[k] = monitors.get(k, 0) + n
        reached.update(rec.get("reached", ()))
        if rec.get("nontrivial") and v != "inconclusive":
            distinct.add(rec.get("key") or case_key(rec.get("spec")))
        if len(samples) < 4 and rec.get("nontrivial"):
            samples.append(rec.get("spec"))
        max_steps = max(max_steps, rec.get("steps", 0))
    for lo in lost:
        verdicts["inconclusive"] += len(lo["indices"])
        reasons["shard died (rc=%s)" % lo["rc"]] = reasons.get("shard died (rc=%s)" % lo["rc"], 0) + len(lo["indices"])
    if not samples and records:
        samples.append(records[0].get("spec"))
    deciding = getattr(mod, "DECIDING_MONITORS", ())
    unreached = [m for m in deciding if monitors.get(m, 0) == 0]
    # replay files
    replay_dir = os.path.join(ROOT, "replays", cid)
    exit_code = 0
    lines = []
    if violations:
        os.makedirs(replay_dir, exist_ok=True)
        seen_w = set()
        for rec in violations:
            wkey = rec.get("wkey") or rec.get("key") or str(rec["index"])
            if wkey in seen_w:
                continue
            seen_w.add(wkey)
            path = os.path.join(replay_dir, "%s-seed%d-case%d.json" % (tier, seed, rec["index"]))
            with open(path, "w") as fh:
                json.dump({"check": cid, "tier": tier, "seed": seed, "index": rec["index"],
                           "why": rec.get("why"), "witness": rec.get("witness"), "spec": rec.get("spec")},
                          fh, indent=1, default=str)
            lines.append("VIOLATION property=%s replay=%s" % (cid, os.path.relpath(path, ROOT)))
            if len(lines) >= 20:
                break
        exit_code = 1
    for fid, recs in sorted(known_hits.items()):
        f = open_findings[fid]
        print("KNOWN-FINDING: property=%s %s %s (met in %d case(s), e.g. case %d: %s)" % (
            cid, fid, f["mechanism"], len(recs), recs[0]["index"], (recs[0].get("why") or "")[:160]))
    decided = verdicts["held"] + verdicts["known"] + verdicts["violated"]
    inconclusive_run = False
    if exit_code == 0 and (decided == 0 or unreached):
        inconclusive_run = True
        exit_code = 2
    evidence = {
        "property_id": cid,
        "tier": tier,
        "seed": seed,
        "level": mod.LEVEL,
        "coverage": {
            "evaluations": len(records) + sum(len(lo["indices"]) for lo in lost),
            "distinct_nontrivial": len(distinct),
            "rule": mod.RULE,
            "samples": samples,
            "verdicts": verdicts,
            "inconclusive_reasons": reasons,
            "inconclusive_cases": [[r["index"], (r.get("why") or "")[:100]] for r in records if r["verdict"] == "inconclusive"][:40],
            "strata": dict(sorted(strata.items())),
            "violated_strata": dict(sorted(viol_strata.items())),
            "monitor_evaluations": dict(sorted(monitors.items())),
            "deciding_monitors_unreached": unreached,
            "library_functions_entered": sorted(reached),
            "known_findings_met": {k: len(v) for k, v in known_hits.items()},
            "max_logical_steps": max_steps,
            "slowest_cases": [[r["index"], r.get("t"), r.get("stratum")] for r in sorted(records, key=lambda r: -r.get("t", 0))[:6]],
            "cpu_s_cases": round(sum(r.get("t", 0) for r in records), 1),
            "exhaustive": bool(getattr(mod, "EXHAUSTIVE", False)),
            "repo": repo_dir(),
        },
        "assumptions": list(mod.ASSUMPTIONS),
        "wall_s": round(wall, 2),
        "violations": len(violations),
    }
    extra = getattr(mod, "extra_coverage", None)
    if extra is not None:
        try:
            evidence["coverage"].update(extra(records))
        except Exception as exc:  # pragma: no cover
            evidence["coverage"]["extra_error"] = repr(exc)
    os.makedirs(os.path.join(ROOT, "evidence"), exist_ok=True)
    evpath = os.path.join(ROOT, "evidence", "%s.json" % cid)
    if partial:
        # a run restricted with --only is a debugging aid: it must not replace the evidence
        os.makedirs(os.path.join(ROOT, "evidence", ".partial"), exist_ok=True)
        evpath = os.path.join(ROOT, "evidence", ".partial", "%s.json" % cid)
    if os.environ.get("VF_EVIDENCE_DIR"):
        os.makedirs(os.environ["VF_EVIDENCE_DIR"], exist_ok=True)
        evpath = os.path.join(os.environ["VF_EVIDENCE_DIR"], "%s.json" % cid)
    with open(evpath, "w") as fh:
        json.dump(evidence, fh, indent=1, default=str)
    print("%s tier=%s seed=%d cases=%d held=%d known=%d violated=%d inconclusive=%d distinct_nontrivial=%d wall=%.1fs" % (
        cid, tier, seed, evidence["coverage"]["evaluations"], verdicts["held"], verdicts["known"],
        verdicts["violated"], verdicts["inconclusive"], len(distinct), wall))
    if reasons:
        top = sorted(reasons.items(), key=lambda kv: -kv[1])[:5]
        print("  inconclusive: " + "; ".join("%s x%d" % kv for kv in top))
    if verbose:
        for rec in violations[:10]:
            print("  case %d: %s" % (rec["index"], rec.get("why")))
    for ln in lines:
        print(ln)
    if inconclusive_run:
        print("INCONCLUSIVE property=%s nothing decided (decided=%d, unreached monitors=%s)" % (cid, decided, unreached))
    return exit_code


def replay(cid, path):
    with open(os.path.join(ROOT, path) if not os.path.isabs(path) else path) as fh:
        data = json.load(fh)
    env = child_env()
    cmd = [PY, "-m", "vf.worker", cid, "--tier", data["tier"], "--seed", str(data["seed"]),
           "--indices", str(data["index"]), "--out", "-", "--verbose"]
    proc = subprocess.run(cmd, cwd=ROOT, env=env, capture_output=True, text=True, timeout=3600)
    sys.stdout.write(proc.stdout)
    sys.stderr.write(proc.stderr[-4000:])
    verdict = None
    for line in proc.stdout.splitlines():
        if line.startswith("{"):
            try:
                rec = json.loads(line)
            except ValueError:
                continue
            verdict = rec.get("verdict")
            finding = rec.get("finding")
    if verdict == "violated":
        known = load_findings()
        open_ids = {f["id"] for f in known.get("findings", []) if f.get("status") == "open" and f["property"] == cid}
        if finding in open_ids:
            print("KNOWN-FINDING: property=%s %s (replay)" % (cid, finding))
            return 0
        print("VIOLATION property=%s replay=%s" % (cid, path))
        return 1
    print("replay verdict: %s" % verdict)
    return 0 if verdict == "held" else 2
