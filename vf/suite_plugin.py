"""pytest plugin: the repository's own test-suite as a workload under contract monitors.

Loaded with `-p vf.suite_plugin`; attaches record-only post-conditions to the real functions
(they never raise into the library, so no test outcome changes) and writes what they observed
to the JSON file named by VF_SUITE_OUT:
  C13  every Point2D built from int/Fraction inputs stores well-formed Fractions, unchanged
       when the denominator is <= 10**9
  C14  every JordanCurve.intersection result: index/parameter ranges, the two evaluations
       coincide, (None, None) only for identical segments
  C15  every JordanCurve.split call: same curve afterwards, junctions at the requested
       parameters, shared junction objects, no zero-length piece
"""
from __future__ import annotations

import json
import os
from fractions import Fraction as Fr

STATE = {"counts": {}, "violations": {"C13": [], "C14": [], "C15": []}}
MON = None


def _count(key, n=1):
    STATE["counts"][key] = STATE["counts"].get(key, 0) + n


def _violate(prop, message, test=None):
    if len(STATE["violations"][prop]) < 50:
        STATE["violations"][prop].append({"message": message[:600], "test": os.environ.get("PYTEST_CURRENT_TEST", "?")})


class _FakeCase:
    """adapter so that the judges written for vf.checks.common.Case can be reused"""

    def __init__(self, prop):
        self.prop = prop
        self.tags = {}

    def violate(self, why, **kw):
        _violate(self.prop, why)

    def count(self, name, n=1):
        _count(self.prop + ":" + name, n)

    def judged(self, n=1):
        pass


def pytest_configure(config):
    global MON
    from vf import contracts, oracle as O, props as P, snapshot as S
    from vf.checks import c14 as C14
    from shapepy import jordancurve as jc, polygon as pol

    MON = contracts.Monitors()

    def post_point(token, args, kwargs, result, exc):
        if exc is not None:
            return
        self_ = args[0]
        point = args[1:]
        if len(point) == 1 and isinstance(point[0], pol.Point2D):
            return
        try:
            x, y = point if len(point) == 2 else point[0]
        except Exception:
            return
        if not (isinstance(x, (int, Fr)) and isinstance(y, (int, Fr))) or isinstance(x, bool) or isinstance(y, bool):
            return
        _count("C13:points-checked")
        for inp, got in ((x, self_[0]), (y, self_[1])):
            if not O.is_wellformed_fraction(got):
                _violate("C13", "Point2D(%r, %r) stores the malformed coordinate %r" % (x, y, got))
            elif Fr(inp).denominator <= 10 ** 9 and got != Fr(inp):
                _violate("C13", "Point2D(%r, %r) stores %r" % (x, y, got))

    MON.attach_path(pol, "Point2D", "__init__", post=post_point, label="Point2D.__init__")

    def pre_split(args, kwargs):
        jordan = args[0]
        try:
            indexs = list(args[1]) if len(args) > 1 else list(kwargs["indexs"])
            nodes = list(args[2]) if len(args) > 2 else list(kwargs["nodes"])
            if len(indexs) != len(nodes) or not all(isinstance(i, int) and 0 <= i < len(jordan.segments) for i in indexs):
                return None
            if not all(0 <= O.to_fr(n) <= 1 for n in nodes):
                return None
            return S.snap_curve(jordan), list(zip(indexs, nodes)), P.curve_is_rational_straight(jordan)
        except Exception:
            return None

    def post_split(token, args, kwargs, result, exc):
        if token is None:
            return
        before, pairs, exact = token
        _count("C15:splits-checked")
        for msg, det in P.judge_split(before, pairs, args[0], exact, exc)[:1]:
            _violate("C15", "split%s: %s" % ([(i, str(n)) for i, n in pairs][:6], msg))

    MON.attach_path(jc, "JordanCurve", "split", pre=pre_split, post=post_split, label="JordanCurve.split")

    def post_inter(token, args, kwargs, result, exc):
        if exc is not None:
            return
        try:
            ja, jb = args[0], args[1]
            ca, cb = S.snap_curve(ja), S.snap_curve(jb)
        except Exception:
            return
        L = max(1.0, O.diameter(O.curves_bbox([ca, cb])))
        rational = O.is_polygonal(ca) and O.is_polygonal(cb) and all(
            isinstance(v, (int, Fr)) for v in S.raw_numbers(ja) + S.raw_numbers(jb))
        _count("C14:intersections-checked")
        C14.judge_entries(_FakeCase("C14"), "intersection", result, ca, cb, 1e-6 * L, rational)

    MON.attach_path(jc, "JordanCurve", "intersection", post=post_inter, label="JordanCurve.intersection")


def pytest_sessionfinish(session, exitstatus):
    if MON is not None:
        for v in MON.take_violations():
            _count("monitor-errors")
            STATE.setdefault("monitor_errors", []).append(str(v.get("tb", v.get("message")))[-500:])
        MON.detach_all()
    STATE["exitstatus"] = int(exitstatus)
    out = os.environ.get("VF_SUITE_OUT")
    if out:
        with open(out, "w") as fh:
            json.dump(STATE, fh, indent=1, default=str)
