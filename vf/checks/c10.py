"""C10 -- answers depend only on the current geometry, not on earlier calls.

State hooks and twin experiments along random histories:
(a) cache coherence -- the cached signed length of every curve equals a recomputation on a
    fresh copy; module-level memo tables only grow, entries never change;
(b) live vs fresh -- after every step the live object and a shape rebuilt from its exact
    snapshot answer a query battery identically;
(c) query non-interference -- twin objects, one asked Q1 then Q2, the other only Q2;
(d) process/configuration -- the same seeded workload in fresh subprocesses under different
    PYTHONHASHSEED values and with cold / pre-warmed memo tables gives identical digests.
"""
from __future__ import annotations

import copy as _copy
import hashlib
import json
import math
import os
import subprocess
import sys
from fractions import Fraction as Fr

from vf import gen as G, model as M, oracle as O, snapshot as S
from vf.checks.common import Case, call, exc_text

ID = "C10"
TECHNIQUE = "runtime monitoring: state hooks on private caches, live-vs-rebuilt and twin experiments along histories, subprocess digests under PYTHONHASHSEED"
LEVEL = "exploration"
RULE = ("random histories (<= 10 steps) over {area / length / box / membership / == / containment queries, move, "
        "positive scale, rotate, invert, operators with a third shape, copy} on live shapes of all kinds; after each "
        "step cache coherence and live-vs-rebuilt battery; twin experiments Q1;Q2 vs Q2 for all ordered pairs of a query "
        "menu; plus subprocess replays under PYTHONHASHSEED in {0,1,12345,random} and cold/warm memo tables; "
        "non-trivial = a history with a transformation or operator step and >= 1 battery comparison; distinct = distinct specs")
ASSUMPTIONS = [
    "floats are compared to 1e-9 relative (a cached translation-invariant quantity may differ in the last bits from "
    "its recomputation), booleans and kinds exactly, regions through the oracle (same_region)",
    "histories use positive scale factors, plus exact mirrors (factors -1/1) of simple shapes only: a mirrored composite "
    "shape leaves the canonical form and no property covers it",
    "the rebuilt twin is constructed from the exact snapshot with the raw coordinate objects, through the public "
    "constructors, not through the library's deepcopy",
]
DECIDING_MONITORS = ("battery:compared", "cache:length-checked", "twin:compared")
CASE_TIMEOUT = 300
SHARD_SIZE = 2


def budget(tier):
    return 132 if tier == "quick" else 1000


NPROC = {"quick": 4, "thorough": 12}

# ----------------------------------------------------------------------------------
# helpers
# ----------------------------------------------------------------------------------


def rebuild(obj):
    """fresh object with the same raw coordinates, built through public constructors"""
    import shapepy
    from shapepy import shape as shp

    def curve(jordan):
        segs = [[(p[0], p[1]) for p in seg.ctrlpoints] for seg in jordan.segments]
        return shapepy.JordanCurve.from_ctrlpoints(segs)

    if isinstance(obj, shapepy.JordanCurve):
        return curve(obj)
    if isinstance(obj, shp.SingletonShape):
        return obj
    if isinstance(obj, shapepy.SimpleShape):
        return shapepy.SimpleShape(curve(obj.jordans[0]))
    if isinstance(obj, shapepy.ConnectedShape):
        return shapepy.ConnectedShape([rebuild(s) for s in obj.subshapes])
    return shapepy.DisjointShape([rebuild(s) for s in obj.subshapes])


def memo_tables():
    from shapepy import curve as crv

    # private memo tables: read if they exist under these names (a refactoring may rename them;
    # then this leg observes nothing, which is reported in the evidence, not an alarm)
    out = {}
    for key, owner, attr in (("caract", "Math", "_Math__caract_matrix"), ("decre", "Operations", "_Operations__degree_decre"),
                             ("deriv", "Derivate", "_Derivate__non_rat_bezier_once")):
        tab = getattr(getattr(crv, owner, None), attr, None)
        if isinstance(tab, dict):
            out[key] = tab
    return out


def memo_snapshot():
    return {name: {k: repr(v) for k, v in tab.items()} for name, tab in memo_tables().items()}


def memo_violations(before, after):
    out = []
    for name in before:
        for k, v in before[name].items():
            if k not in after[name]:
                out.append("memo table %s lost the entry %r" % (name, k))
            elif after[name][k] != v:
                out.append("memo table %s changed the entry %r" % (name, k))
    return out


def cache_violations(case, shape):
    """cached signed length of every curve vs recomputation on a fresh copy"""
    out = []
    for k, jordan in enumerate(getattr(shape, "jordans", ())):
        cached = jordan.__dict__.get("_JordanCurve__lenght")
        case.count("cache:length-checked")
        if cached is None:
            continue
        case.count("cache:length-set")
        fresh = rebuild(jordan)
        want = float(fresh)
        if (cached > 0) != (want > 0) or abs(cached - want) > 1e-9 * max(abs(want), 1e-300):
            out.append("boundary %d caches the signed length %r but a fresh copy gives %r" % (k, cached, want))
    return out


def approx(a, b):
    if isinstance(a, bool) or isinstance(b, bool) or a is None or b is None:
        return a == b
    if isinstance(a, (int, float, Fr)) and isinstance(b, (int, float, Fr)):
        a, b = float(a), float(b)
        if math.isnan(a) and math.isnan(b):
            return True
        return abs(a - b) <= 1e-9 * max(abs(a), abs(b), 1e-12) or abs(a - b) < 1e-12
    if isinstance(a, (tuple, list)) and isinstance(b, (tuple, list)):
        return len(a) == len(b) and all(approx(x, y) for x, y in zip(a, b))
    return a == b


def answer(fn):
    """normalised answer of a query: value, or the exception type"""
    try:
        return ("ok", fn())
    except Exception as exc:
        return ("raised", type(exc).__name__)


QUERY_NAMES = ["area", "lengths", "box", "points", "eq_third", "third_in", "in_third", "eq_self_copy", "op_or", "op_and", "op_sub", "curve_in"]


def run_query(name, shape, third, pts):
    """returns a comparable answer; regions are returned as exact snapshots"""
    import shapepy

    if name == "area":
        return answer(lambda: float(shape))
    if name == "lengths":
        return answer(lambda: tuple(float(j) for j in shape.jordans))
    if name == "box":
        def box():
            b = shape.box()
            return (float(b.lowpt[0]), float(b.lowpt[1]), float(b.toppt[0]), float(b.toppt[1]))
        return answer(box)
    if name == "points":
        return answer(lambda: tuple(bool(p in shape) for p in pts))
    if name == "eq_third":
        return answer(lambda: bool(shape == third))
    if name == "third_in":
        return answer(lambda: bool(third in shape))
    if name == "in_third":
        return answer(lambda: bool(shape in third))
    if name == "eq_self_copy":
        return answer(lambda: bool(shape == _copy.deepcopy(shape)))
    if name == "curve_in":
        return answer(lambda: bool(third.jordans[0] in shape))
    op = {"op_or": "or", "op_and": "and", "op_sub": "sub"}[name]
    kind, val = answer(lambda: M.BINARY[op](shape, third))
    if kind == "ok":
        return ("region", S.snap_shape(val))
    return (kind, val)


def same_answer(a, b):
    if a[0] != b[0]:
        return False
    if a[0] == "region":
        r0, r1 = a[1], b[1]
        exact = S.is_exact_region(r0) and S.is_exact_region(r1)
        if r0 == r1:
            return True
        tol = 0.0 if exact else max(S.region_tol(r0, 1e-7), S.region_tol(r1, 1e-7))
        ok, _ = O.same_region(r0, r1, tol)
        if not ok and exact:
            ok, _ = O.same_region(r0, r1, 1e-9)
        return ok
    return approx(a[1], b[1])


def fmt_answer(a):
    if a[0] == "region":
        return "region %s with %d boundaries" % (a[1][0], len(O.region_curves(a[1])))
    return "%s %r" % a


# ----------------------------------------------------------------------------------
# history steps
# ----------------------------------------------------------------------------------


def random_step(rng, rational, simple):
    r = rng.random()
    if r < 0.18:
        if rational and rng.random() < 0.7:
            return {"op": "move", "dx": str(rng.randint(-9, 9)), "dy": str(Fr(rng.randint(-20, 20), rng.choice([1, 2, 4])))}
        return {"op": "move", "dx": repr(rng.uniform(-9, 9)), "dy": repr(rng.uniform(-9, 9))}
    if r < 0.36:
        if rational and rng.random() < 0.7:
            s = rng.choice([2, 3, Fr(1, 2), Fr(3, 2)])
            t = s if rng.random() < 0.6 else rng.choice([2, 3, Fr(1, 2)])
            return {"op": "scale", "sx": str(s), "sy": str(t)}
        s = rng.uniform(0.3, 3)
        if simple and rng.random() < 0.25:
            # exact mirror of a simple shape: the orientation (hence the denoted region) flips;
            # live and rebuilt objects must still agree
            return {"op": "scale", "sx": rng.choice(["-1", "1", "-1.0"]), "sy": rng.choice(["1", "-1"])}
        return {"op": "scale", "sx": repr(s), "sy": repr(s if rng.random() < 0.6 else rng.uniform(0.3, 3))}
    if r < 0.48:
        return {"op": "rotate", "angle": repr(rng.uniform(-7, 7)), "degrees": False} if rng.random() < 0.6 else \
            {"op": "rotate", "angle": repr(rng.uniform(-360, 360)), "degrees": True}
    if r < 0.56 and simple:
        return {"op": "invert"}
    if r < 0.8:
        return {"op": "query", "name": rng.choice(QUERY_NAMES)}
    if r < 0.9:
        return {"op": "copy"}
    return {"op": "query", "name": rng.choice(["op_or", "op_and", "op_sub"])}


def apply_step(shape, step, third, pts):
    from vf.checks.c09 import parse

    if step["op"] == "move":
        shape.move(parse(step["dx"]), parse(step["dy"]))
    elif step["op"] == "scale":
        shape.scale(parse(step["sx"]), parse(step["sy"]))
    elif step["op"] == "rotate":
        shape.rotate(parse(step["angle"]), degrees=step["degrees"])
    elif step["op"] == "invert":
        shape.invert()
    elif step["op"] == "copy":
        _copy.copy(shape)
        _copy.deepcopy(shape)
    else:
        run_query(step["name"], shape, third, pts)


# ----------------------------------------------------------------------------------
# cases
# ----------------------------------------------------------------------------------


def make_operands(rng):
    kind = rng.choice("SSSSCCDUV")
    curved = rng.random() < 0.12
    num = None if curved else rng.choice(["int", "frac", "float"])
    size = 10.0
    spec, _ = G.random_shape(rng, kind, num, curved, (0, 0), size)
    num = G.spec_num(spec)
    off = (rng.uniform(-7, 7), rng.uniform(-7, 7))
    if num == "int":
        off = (round(off[0] * 4), round(off[1] * 4))
    tnum = num if num in ("int", "frac", "float") else "float"
    third, _ = G.random_simple(rng, tnum, curved and rng.random() < 0.5, off, 8.0 if tnum != "int" else 30.0)
    return kind, spec, third


def query_points(rng, n=12):
    return [(rng.uniform(-15, 15), rng.uniform(-15, 15)) for _ in range(n)]


def history_case(case, ctx, kind, spec, third_spec):
    rng = ctx.rng
    shape = G.build(spec)
    third = G.build(third_spec)
    pts = query_points(rng)
    rational = G.spec_num(spec) in ("int", "frac") and not G.spec_is_curved(spec)
    is_curved = G.spec_is_curved(spec)
    nsteps = rng.randint(2, 10) if not is_curved else rng.randint(2, 4)
    steps = []
    memo0 = memo_snapshot()
    interesting = False
    for k in range(nsteps):
        import shapepy

        step = random_step(rng, rational, isinstance(shape, shapepy.SimpleShape))
        steps.append(step)
        case.spec["steps"] = steps
        _, exc = call(apply_step, shape, step, third, pts)
        if exc is not None:
            # failures of the step itself are judged by C01/C09/C11; here the history just goes on
            case.count("history:step-raised")
        if step["op"] in ("move", "scale", "rotate", "invert") or step.get("name", "").startswith("op_"):
            interesting = True
        # (a) cache coherence at the quiescent point
        for msg in cache_violations(case, shape):
            case.violate("cache: after step %d (%s): %s" % (k, step["op"] + ":" + step.get("name", ""), msg), step=k)
        memo1 = memo_snapshot()
        for msg in memo_violations(memo0, memo1):
            case.violate("memo: " + msg, step=k)
        memo0 = memo1
        # (b) live vs rebuilt
        fresh, exc = call(rebuild, shape)
        if exc is not None:
            case.unsure("cannot rebuild the live shape: %s" % exc_text(exc))
            break
        if is_curved:
            cheap = [q for q in QUERY_NAMES if not q.startswith("op_") and q not in ("third_in", "in_third")]
            names = rng.sample(cheap, 2) + ["area", "lengths"] + ([rng.choice(["op_or", "op_and", "op_sub"])] if k == nsteps - 1 else [])
        else:
            names = rng.sample(QUERY_NAMES, 4) + ["area", "lengths"]
        for name in names:
            third_live, third_fresh = G.build(third_spec), G.build(third_spec)
            a = run_query(name, shape, third_live, pts)
            b = run_query(name, fresh, third_fresh, pts)
            case.count("battery:compared")
            case.judged()
            if not same_answer(a, b):
                case.tags["query"] = name
                case.violate("after step %d (%s) the live shape answers %s with %s, a rebuilt copy with %s" % (
                    k, step["op"] + ":" + step.get("name", ""), name, fmt_answer(a), fmt_answer(b)), step=k, query=name)
                return interesting
            # asking twice gives the same answer
            a2 = run_query(name, shape, G.build(third_spec), pts)
            if not same_answer(a, a2):
                case.violate("asking %s twice gives %s then %s" % (name, fmt_answer(a), fmt_answer(a2)), step=k, query=name)
                return interesting
    return interesting


def twin_case(case, ctx, kind, spec, third_spec):
    rng = ctx.rng
    pts = query_points(rng)
    pairs = [(q1, q2) for q1 in QUERY_NAMES for q2 in QUERY_NAMES]
    rng.shuffle(pairs)
    npairs = 10 if not G.spec_is_curved(spec) else 4
    for q1, q2 in pairs[:npairs]:
        one, two = G.build(spec), G.build(spec)
        run_query(q1, one, G.build(third_spec), pts)
        a = run_query(q2, one, G.build(third_spec), pts)
        b = run_query(q2, two, G.build(third_spec), pts)
        case.count("twin:compared")
        case.judged()
        if not same_answer(a, b):
            case.tags["q1"], case.tags["q2"] = q1, q2
            case.violate("asking %s first changes the answer to %s: %s instead of %s" % (q1, q2, fmt_answer(a), fmt_answer(b)),
                         q1=q1, q2=q2)
            return True
        # operands shared between two operators: same third shape object re-used
        if q1.startswith("op_") and q2.startswith("op_"):
            one, two = G.build(spec), G.build(spec)
            t1, t2 = G.build(third_spec), G.build(third_spec)
            run_query(q1, one, t1, pts)
            a = run_query(q2, one, t1, pts)
            b = run_query(q2, two, t2, pts)
            case.count("twin:compared")
            if not same_answer(a, b):
                case.tags["q1"], case.tags["q2"] = q1, q2
                case.violate("%s after %s on the same two operands gives %s, on fresh operands %s" % (
                    q2, q1, fmt_answer(a), fmt_answer(b)), q1=q1, q2=q2, shared_third=True)
                return True
    return True


def digest_workload(seed, n=7):
    """deterministic workload whose answers are hashed (run in a subprocess)"""
    import random

    rng = random.Random("C10-digest/%d" % seed)
    out = []
    for i in range(n):
        kind, spec, third_spec = make_operands(rng)
        if G.spec_is_curved(spec) and i % 4:
            continue
        shape, third = G.build(spec), G.build(third_spec)
        pts = query_points(rng, 6)
        for name in QUERY_NAMES:
            a = run_query(name, shape, third, pts)
            if a[0] == "region":
                out.append([name, "region", S.region_to_json(a[1])])
            else:
                out.append([name, a[0], repr(a[1])])
    blob = json.dumps(out, sort_keys=True)
    return hashlib.sha256(blob.encode()).hexdigest(), len(out)


def process_case(case, ctx):
    from vf import runner

    seed = ctx.seed * 1000 + ctx.index
    results = {}
    configs = [("0", "cold"), ("1", "cold"), ("12345", "warm"), ("random", "cold"), ("random", "warm")]
    for hs, warm in configs:
        env = runner.child_env()
        env["PYTHONHASHSEED"] = hs
        cmd = [runner.PY, "-c",
               "import sys; from vf.checks import c10; c10.digest_main(%d, %r)" % (seed, warm)]
        proc = subprocess.run(cmd, cwd=runner.ROOT, env=env, capture_output=True, text=True, timeout=280)
        line = [ln for ln in proc.stdout.splitlines() if ln.startswith("DIGEST ")]
        case.count("process:runs")
        if proc.returncode != 0 or not line:
            case.unsure("digest subprocess failed: %s" % proc.stderr[-300:])
            return
        results[(hs, warm)] = line[0].split()[1:]
    case.judged()
    case.count("process:compared", len(results))
    digests = {v[0] for v in results.values()}
    case.spec["digests"] = {"%s/%s" % k: v[0][:16] for k, v in results.items()}
    case.spec["answers"] = int(list(results.values())[0][1])
    if len(digests) != 1:
        case.violate("the same seeded workload gives different answers under different PYTHONHASHSEED / memo states: %s" % (
            {"%s/%s" % k: v[0][:12] for k, v in results.items()},))


def digest_main(seed, warm):
    if warm == "warm":
        # pre-warm the memo tables with other degrees
        import shapepy
        from shapepy import curve as crv

        for deg in (1, 2, 3, 4, 5, 6):
            crv.Math.bezier_caract_matrix(deg)
            crv.Derivate.non_rational_bezier(deg, 1)
            for t in range(1, deg):
                crv.Operations.degree_decrease(deg, t)
        shapepy.Primitive.circle(3.0, (1, 1), 7) & shapepy.Primitive.square(4)
    d, n = digest_workload(seed)
    print("DIGEST %s %d" % (d, n))


def case(ctx):
    rng = ctx.rng
    nproc = NPROC[ctx.tier]
    if ctx.index < nproc:
        case = Case(ctx, {"mode": "process", "seed": ctx.seed * 1000 + ctx.index}, "process")
        process_case(case, ctx)
        case.nontrivial = case.decided > 0
        return case.finish()
    kind, spec, third = make_operands(rng)
    mode = "history" if (ctx.index % 2 == 0) else "twin"
    case = Case(ctx, {"mode": mode, "shape": spec, "third": third},
                "%s-%s-%s" % (mode, kind, "curved" if G.spec_is_curved(spec) else G.spec_num(spec)))
    if mode == "history":
        case.nontrivial = bool(history_case(case, ctx, kind, spec, third)) and case.decided > 0
    else:
        case.nontrivial = bool(twin_case(case, ctx, kind, spec, third)) and case.decided > 0
    return case.finish()
