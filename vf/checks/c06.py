"""C06 -- results are canonical, well-formed shapes; empty/whole are the singletons.

Post-condition monitor on every operator result of the C01 operand stream: closed chains
(the end point of a segment *is* the start point of the next), no zero-length piece, no
self-crossing, the structure of its kind (one boundary; one outer-or-unbounded region minus
holes; >= 2 pairwise disjoint components), the kind allowed by the documentation's tables,
and the Empty/Whole singletons for results that are empty / the whole plane by
construction.  The five singleton laws are evaluated for every generated shape.
"""
from __future__ import annotations

from fractions import Fraction as Fr

from vf import gen as G, model as M, opwork as W, oracle as O, props as P, snapshot as S
from vf.checks.common import Case, call, exc_text
from vf.checks.c07 import translate_spec

ID = "C06"
TECHNIQUE = "runtime monitoring: post-condition monitors on operator results (closed chains, structure, kind tables, singleton identity)"
LEVEL = "exploration"
RULE = ("(a) operand pairs of the C01 generator (all kinds^2, int/Fraction/float, degrees 1-3) x all operator spellings: every "
        "result is checked for well-formedness and against the 5x5 kind tables; (b) for every generated shape S of every kind "
        "the laws S|~S is Whole, S&~S, S-S, S^S are Empty, S^~S is Whole (identity with the singletons); (c) results empty or "
        "whole by construction (far apart, nested, complement placements); non-trivial = a defined (non-singleton) result was "
        "checked or a singleton law judged; distinct = distinct case specs")
ASSUMPTIONS = [
    "self-crossing and containment tests are exact for polygonal boundaries; curved boundaries are flattened (8 pieces per "
    "segment) for the self-crossing test",
    "contact of components / holes at isolated points is allowed; overlap is detected through an interior witness point",
    "wrong *regions* are C01's business: only form, kind and singleton identity are judged here",
]
DECIDING_MONITORS = ("wellformed:judged", "law:judged")
CASE_TIMEOUT = 300
SHARD_SIZE = 8
KIND = {"empty": "E", "whole": "W", "simple": "S", "connected": "C", "disjoint": "D"}


def budget(tier):
    return 192 if tier == "quick" else 1500


def kind_of(shape):
    return KIND[S.snap_shape(shape)[0]]


def judge(case, label, op, result, ka, kb, contact):
    import shapepy

    case.count("wellformed:judged")
    case.judged()
    viol = P.judge_wellformed(result)
    for msg, det in viol[:2]:
        case.violate("%s: %s" % (label, msg), op=label, result=S.region_to_json(S.snap_shape(result)) if hasattr(result, "jordans") or True else None)
    try:
        kr = kind_of(result)
    except TypeError:
        case.violate("%s returns %s" % (label, type(result).__name__))
        return
    allowed = P.allowed_kinds(op, ka, kb)
    case.count("kind-table:judged")
    if kr not in allowed:
        case.violate("%s: kinds %s %s %s give %s, the documentation's table allows %s" % (
            label, ka, M.SYMBOL[op], kb or "", kr, "/".join(allowed)), op=label)
    if hasattr(result, "jordans"):
        case.nontrivial = True


def laws(case, spec, rng):
    import shapepy

    E, Wh = shapepy.EmptyShape(), shapepy.WholeShape()
    table = [("S | ~S", lambda s: s | ~s, Wh), ("S & ~S", lambda s: s & ~s, E), ("S - S", lambda s: s - s, E),
             ("S ^ S", lambda s: s ^ s, E), ("S ^ ~S", lambda s: s ^ ~s, Wh),
             ("S - S (two objects)", None, E), ("S | ~S (two objects)", None, Wh)]
    if G.spec_is_curved(spec):
        # a law on a curved shape costs 5-30 s (all segment pairs are identical: Newton from every start pair)
        table = rng.sample(table[:5], 2) + [table[rng.choice([5, 6])]]
    for name, fn, want in table:
        s = G.build(spec)
        if fn is None:
            t = G.build(spec)
            fn2 = (lambda a, b: a - b) if "-" in name else (lambda a, b: a | ~b)
            res, exc = call(fn2, s, t)
        else:
            res, exc = call(fn, s)
        case.count("law:judged")
        case.judged()
        if exc is not None:
            case.tags["contact"] = True
            case.violate("law %s raised %s" % (name, exc_text(exc)), law=name)
            continue
        if res is not want:
            case.tags["contact"] = True
            case.violate("law %s gives %s instead of the %s singleton" % (
                name, (type(res).__name__), type(want).__name__), law=name)
    case.nontrivial = True


def constructed_singletons(case, rng, spec):
    """results that are empty / whole by construction"""
    import shapepy

    E, Wh = shapepy.EmptyShape(), shapepy.WholeShape()
    reg = S.snap_shape(G.build(spec))
    curves = O.region_curves(reg)
    if not curves:
        return
    box = O.curves_bbox(curves)
    diam = O.diameter(box)
    bounded = all(True for _ in curves) and sum((O.signed_area(c) for c in curves), Fr(0)) > 0 and reg[0] in ("simple", "connected", "disjoint")
    # the same shape far away
    d = 4 * diam + 10
    if G.spec_num(spec) == "int":
        d = int(d) + 1
    far = translate_spec(spec, d, 0)
    a, b = G.build(spec), G.build(far)
    area = sum((O.signed_area(c) for c in curves), Fr(0))
    if area > 0 and all(O.orientation(c) > 0 or reg[0] != "simple" for c in curves):
        for name, fn, want in (("A & far(A)", lambda: a & b, E), ("A - (A | far(A))", lambda: G.build(spec) - (G.build(spec) | G.build(far)), E)):
            res, exc = call(fn)
            case.count("law:judged")
            if exc is not None:
                case.tags["contact"] = "A | " in name or "(A |" in name
                case.violate("%s raised %s" % (name, exc_text(exc)), law=name)
            elif res is not want:
                case.tags["contact"] = "(A |" in name
                case.violate("%s gives %s instead of the Empty singleton" % (name, type(res).__name__), law=name)
        res, exc = call(lambda: ~G.build(spec) | ~G.build(far))
        case.count("law:judged")
        if exc is not None:
            case.violate("~A | ~far(A) raised %s" % exc_text(exc))
        elif res is not Wh:
            case.violate("~A | ~far(A) gives %s instead of the Whole singleton" % type(res).__name__)


def identities(case, spec):
    """copy(S) and ~~S are re-classified from their boundaries (ShapeFromJordans): they must be
    well formed, of the same kind, and denote the same region"""
    import copy as _copy

    S0 = G.build(spec)
    r0 = S.snap_shape(S0)
    exact = S.is_exact_region(r0) and G.spec_num(spec) in ("int", "frac")
    for name, fn in (("copy(S)", lambda s: _copy.copy(s)), ("~~S", lambda s: ~(~s)), ("S | Empty", lambda s: s | shapepy_empty())):
        res, exc = call(fn, G.build(spec))
        case.count("wellformed:judged")
        case.judged()
        if exc is not None:
            case.violate("%s raised %s" % (name, exc_text(exc)))
            continue
        for msg, det in P.judge_wellformed(res)[:2]:
            case.violate("%s: %s" % (name, msg), op=name)
        r1 = S.snap_shape(res)
        if S.structure(r1) != S.structure(r0):
            case.violate("%s has another structure than S: %s instead of %s" % (name, S.structure(r1), S.structure(r0)), op=name)
        else:
            ok, why = S.same_denotation(r0, r1, 0.0 if exact else S.region_tol(r0, 1e-9))
            if not ok:
                case.violate("%s does not denote the region of S: %s" % (name, why), op=name)


def shapepy_empty():
    import shapepy

    return shapepy.EmptyShape()


def program_case(ctx):
    """results of nested operator expressions (leaf re-use included) are well formed"""
    rng = ctx.rng
    nleaves = rng.randint(2, 3)
    num = rng.choice(["int", "frac", "float"])
    specs = []
    for i in range(nleaves):
        off = (rng.uniform(-8, 8), rng.uniform(-8, 8))
        if num == "int":
            off = (round(off[0] * 4), round(off[1] * 4))
        s_, _ = G.random_shape(rng, rng.choice("SSSCDU"), num, False, off, 10.0 * rng.choice([0.5, 1.0]))
        specs.append(s_)
    prog = W.random_program(rng, nleaves, rng.randint(2, 3))
    text = W.program_text(prog)
    case = Case(ctx, {"leaves": specs, "program": text, "mode": "program"}, "program-%s" % num)
    leaves = [G.build(s_) for s_ in specs]
    case.tags["contact"] = False

    def on_node(op, operands, node_text):
        if len(operands) == 2:
            cls = W.pair_class(S.snap_shape(operands[0]), S.snap_shape(operands[1]))
            if cls["contact"] or (op == "xor" and cls["class"] == "crossing"):
                case.tags["contact"] = True

    try:
        result = W.eval_program(prog, leaves, on_node)
    except W.ProgramFailure as exc:
        case.count("program-raised")
        case.unsure("program raised (C01's business): %s" % str(exc)[:120])
        return case.finish()
    case.count("wellformed:judged")
    case.judged()
    for msg, det in P.judge_wellformed(result)[:2]:
        case.violate("program %s: %s" % (text, msg), program=text)
    if hasattr(result, "jordans"):
        case.nontrivial = True
    return case.finish()


def case(ctx):
    rng = ctx.rng
    if ctx.index % 8 == 7:
        return program_case(ctx)
    mode = ctx.index % 3
    if mode == 2:
        kind = rng.choice("SSUCCDDNNV")
        curved = rng.random() < 0.2
        num = None if curved else rng.choice(["int", "frac", "float"])
        spec, _ = G.random_shape(rng, kind, num, curved, (0, 0), 10.0)
        case = Case(ctx, {"shape": spec, "mode": "laws"}, "laws-%s-%s" % (kind, "curved" if G.spec_is_curved(spec) else G.spec_num(spec)))
        identities(case, spec)
        laws(case, spec, rng)
        if not G.spec_is_curved(spec):
            constructed_singletons(case, rng, spec)
        return case.finish()
    sa, sb, info = W.make_pair(rng, curved_prob=0.2)
    case = Case(ctx, {"A": sa, "B": sb, "kinds": info["ka"] + info["kb"]},
                "pair-%s" % ("curved" if (G.spec_is_curved(sa) or G.spec_is_curved(sb)) else G.spec_num(sa)))
    A0, B0 = G.build(sa), G.build(sb)
    ra, rb = S.snap_shape(A0), S.snap_shape(B0)
    cls = W.pair_class(ra, rb)
    case.tags.update(W.config_tags([ra, rb]))
    case.tags["contact"] = cls["contact"]
    case.stratum += "-" + cls["class"]
    ka, kb = KIND[ra[0]], KIND[rb[0]]
    ops = ["or", "and", "sub", "xor", "add", "mul", "inv", "neg"]
    if case.tags.get("curved"):
        rng.shuffle(ops)
        ops = ops[:3]
    for op in ops:
        A, B = G.build(sa), G.build(sb)
        guard = P.BigNumGuard()
        guard.install()
        try:
            if op in ("inv", "neg"):
                res, exc = P.guarded_call(M.UNARY[op], A)
                label = "%sA" % M.SYMBOL[op]
                k2 = None
            else:
                res, exc = P.guarded_call(M.BINARY[op], A, B)
                label = "A %s B" % M.SYMBOL[op]
                k2 = kb
        finally:
            guard.remove()
        if exc is not None:
            case.count("operator-raised")
            continue
        if op == "xor" and cls["class"] == "crossing":
            case.tags["contact_inside_xor"] = True
        judge(case, label, op, res, ka, k2, cls["contact"])
        if op == "xor" and case.violations and cls["class"] == "crossing":
            case.tags["contact"] = True
        if len(case.violations) >= 3:
            break
    return case.finish()
