"""C17 -- Jordan-curve constructors agree with each other and reject open chains.

One exact description (list of control polygons) is fed to every constructor that can
express it -- from_vertices (degree 1), from_ctrlpoints, from_segments and from_full_curve
through a pynurbs curve assembled with the corresponding knot vector; the resulting objects
are observed (vertices, segments, box, signed length, area, junction identity) and compared
pairwise with == and with the oracle's reading of the description.  Malformed chains and
non-curve arguments must raise.
"""
from __future__ import annotations

import math
from fractions import Fraction as Fr

from vf import gen as G, oracle as O, props as P, snapshot as S
from vf.checks.common import Case, call, exc_text

ID = "C17"
TECHNIQUE = "runtime monitoring: differential observation of the four constructors against one exact description; malformed-input monitor"
LEVEL = "exploration"
RULE = ("random closed curves (polygons int/Fraction/float, uniform-degree Bezier chains of degree 2-3 in float, mixed-degree "
        "chains, two-segment lenses, both orientations) built through every applicable constructor, the same description object used again after the first curve was moved in place, plus malformed inputs (each offered repeatedly): a chain whose end point "
        "differs from the next start point by >= 1e-6 at a random position (closing one included), non-curve arguments (str, "
        "None, numbers, lists of the wrong things); non-trivial = a description built by >= 2 constructors and compared; "
        "distinct = distinct case specs")
ASSUMPTIONS = [
    "from_full_curve is exercised with uniform-degree chains (one pynurbs curve with interior knots of full multiplicity)",
    "signed length: equal across constructors to 1e-12 relative and its sign is the oracle's orientation; its magnitude is "
    "only required to lie between the chord-polygon and control-polygon lengths (the statement does not promise more)",
    "vertices: every control point once, in order, up to a cyclic rotation of the starting segment",
]
DECIDING_MONITORS = ("constructors:compared", "malformed:judged")
CASE_TIMEOUT = 120
SHARD_SIZE = 12


def budget(tier):
    return 176 if tier == "quick" else 2000


def description(rng):
    """returns (segments as exact control polygons, numeric kind, uniform degree or None)"""
    r = rng.random()
    cw = rng.random() < 0.4
    center = (rng.uniform(-20, 20), rng.uniform(-20, 20))
    size = rng.choice([1.0, 10.0, 100.0])
    if r < 0.4:
        num = rng.choice(["int", "frac", "float"])
        if num == "int":
            center = (round(center[0]), round(center[1]))
        spec, _ = G.random_polygon(rng, num, center, size, cw=cw)
        verts = [(G.exact(x), G.exact(y)) for x, y in spec["v"]]
        segs = [tuple([verts[i], verts[(i + 1) % len(verts)]]) for i in range(len(verts))]
        return segs, num, 1
    if r > 0.9:
        # two-segment closed curves: half disk / lens
        spec, _ = G.random_lens(rng, center, size, cw=cw)
        segs = [tuple((G.exact(x), G.exact(y)) for x, y in seg) for seg in spec["segs"]]
        return segs, "float", None
    degree = rng.choice([2, 3])
    mixed = r > 0.8
    raw = G.blob_segments(rng, rng.randint(3, 6), degree, center, 0.55 * size, size, mixed, coincident=rng.random() < 0.3)
    segs = [tuple((Fr(x), Fr(y)) for x, y in seg) for seg in raw]
    # make junctions exactly shared
    for i in range(len(segs)):
        nxt = segs[(i + 1) % len(segs)]
        segs[i] = tuple(list(segs[i][:-1]) + [nxt[0]])
    if cw:
        segs = [tuple(reversed(s)) for s in reversed(segs)]
    return segs, "float", (None if mixed else degree)


def lib_num(v, num):
    if num == "float":
        return float(v)
    if num == "int":
        return int(v)
    return v


def build_all(segs, num, degree):
    """name -> callable building the curve"""
    import pynurbs
    import shapepy

    JC = shapepy.JordanCurve
    ctrl = [[(lib_num(p[0], num), lib_num(p[1], num)) for p in seg] for seg in segs]
    out = {}
    out["from_ctrlpoints"] = lambda: JC.from_ctrlpoints(ctrl)
    out["from_ctrlpoints(tuples)"] = lambda: JC.from_ctrlpoints(tuple(tuple(shapepy.Point2D(*p) for p in seg) for seg in ctrl))
    out["from_segments"] = lambda: JC.from_segments([shapepy.PlanarCurve(seg) for seg in ctrl])
    if degree == 1:
        out["from_vertices"] = lambda: JC.from_vertices([seg[0] for seg in ctrl])
        out["from_vertices(Point2D)"] = lambda: JC.from_vertices(tuple(shapepy.Point2D(*seg[0]) for seg in ctrl))
    if degree is not None:
        def full():
            n = len(ctrl)
            knots = [0] * (degree + 1)
            for k in range(1, n):
                knots += [Fr(k, n)] * degree
            knots += [1] * (degree + 1)
            points = [shapepy.Point2D(*ctrl[0][0])]
            for seg in ctrl:
                points += [shapepy.Point2D(*p) for p in seg[1:]]
            curve = pynurbs.Curve(knots, points)
            return JC.from_full_curve(curve)
        out["from_full_curve"] = full
    out["from_ctrlpoints(same description again)"] = lambda: JC.from_ctrlpoints(ctrl)
    return out


def observe(jordan):
    verts = [S.snap_point(p) for p in jordan.vertices]
    box = jordan.box()
    return {
        "curve": S.snap_curve(jordan),
        "vertices": verts,
        "box": (O.to_fr(box.lowpt[0]), O.to_fr(box.lowpt[1]), O.to_fr(box.toppt[0]), O.to_fr(box.toppt[1])),
        "length": float(jordan),
    }


def rotations_equal(a, b, tol):
    n = len(a)
    if n != len(b):
        return False
    for r in range(n):
        if all(abs(float(x[0] - y[0])) <= tol and abs(float(x[1] - y[1])) <= tol for x, y in zip(a, b[r:] + b[:r])):
            return True
    return False


def malformed(case, rng, segs, num):
    import shapepy

    JC = shapepy.JordanCurve
    ctrl = [[(lib_num(p[0], num), lib_num(p[1], num)) for p in seg] for seg in segs]
    L = max(1.0, O.diameter(O.curve_bbox(tuple(segs))))
    k = rng.randrange(len(ctrl))  # includes the closing junction (k = last)
    gap = rng.choice([1e-6, 1e-5, 1e-3, 0.1]) * L * rng.choice([1, 1, 3])
    broken = [list(seg) for seg in ctrl]
    x, y = broken[k][-1]
    if num == "float":
        broken[k][-1] = (x + gap, y)
    else:
        broken[k][-1] = (Fr(x) + Fr(gap).limit_denominator(10 ** 6) + Fr(1, 10 ** 6), y)
    tests = [
        ("from_ctrlpoints(open chain, gap %.1e at junction %d/%d)" % (gap, k, len(ctrl)), lambda: JC.from_ctrlpoints(broken)),
        ("from_segments(open chain, gap %.1e at junction %d/%d)" % (gap, k, len(ctrl)), lambda: JC.from_segments([shapepy.PlanarCurve(s) for s in broken])),
    ]
    # the same segment objects offered again after the rejection: still an open chain
    pieces, exc = call(lambda: [shapepy.PlanarCurve(s) for s in broken])
    if exc is None:
        for attempt in (1, 2, 3):
            tests.append(("from_segments(the same open chain of segment objects, attempt %d, gap %.1e at junction %d/%d)" % (
                attempt, gap, k, len(ctrl)), lambda: JC.from_segments(pieces)))
        tests.append(("from_ctrlpoints(open chain, second attempt with the same lists)", lambda: JC.from_ctrlpoints(broken)))
    bad_args = ["abc", None, 5, 2.5, [1, 2, 3], [[1, 2], "x"], {"a": 1}]
    for b in rng.sample(bad_args, 3):
        tests.append(("from_vertices(%r)" % (b,), lambda b=b: JC.from_vertices(b)))
        tests.append(("from_ctrlpoints(%r)" % (b,), lambda b=b: JC.from_ctrlpoints(b)))
        tests.append(("from_segments(%r)" % (b,), lambda b=b: JC.from_segments(b)))
        tests.append(("from_full_curve(%r)" % (b,), lambda b=b: JC.from_full_curve(b)))
        tests.append(("JordanCurve(%r)" % (b,), lambda b=b: JC(b)))
    for name, fn in tests:
        case.count("malformed:judged")
        case.judged()
        try:
            res = fn()
        except Exception:
            continue
        case.violate("%s returns %s instead of raising" % (name, type(res).__name__), call=name)


def case(ctx):
    import shapepy

    rng = ctx.rng
    segs, num, degree = description(rng)
    curve = tuple(segs)
    case = Case(ctx, {"segments": S.curve_to_json(curve), "num": num, "degree": degree},
                "deg%s-%s" % (degree if degree else "mixed", num))
    exact = num in ("int", "frac")
    L = max(1.0, O.diameter(O.curve_bbox(curve)))
    tol = 0.0 if exact else 1e-12 * (L + max(abs(float(v)) for s in curve for p in s for v in p))
    builders = build_all(segs, num, degree)
    built = {}
    for name, fn in builders.items():
        if name == "from_ctrlpoints(same description again)" and "from_ctrlpoints" in built:
            # the description object handed to the first call is used a second time after the first
            # curve was transformed in place: it still describes the same curve
            first = built.pop("from_ctrlpoints")
            shift = (3, 2) if exact else (0.75 * L, -1.25 * L)
            call(first.move, shift)
            if rng.random() < 0.5:
                call(first.scale, 2, 3)
            case.count("constructors:description-reused-after-move")
        obj, exc = call(fn)
        if exc is not None:
            case.violate("%s raised %s for a valid closed chain" % (name, exc_text(exc)), constructor=name)
            continue
        if not isinstance(obj, shapepy.JordanCurve):
            case.violate("%s returns %s" % (name, type(obj).__name__))
            continue
        built[name] = obj
    want_vertices = []
    for seg in curve:
        want_vertices += list(seg[:-1])
    orient = O.orientation(curve)
    area = O.signed_area(curve)
    chord = sum(math.hypot(float(s[-1][0] - s[0][0]), float(s[-1][1] - s[0][1])) for s in curve)
    hull = O.chord_length(curve)
    observed = {}
    for name, obj in built.items():
        ob, exc = call(observe, obj)
        case.count("constructors:compared")
        case.judged()
        if exc is not None:
            case.violate("%s: reading vertices/box/length raised %s" % (name, exc_text(exc)), constructor=name)
            continue
        observed[name] = ob
        ok, why = O.same_curve(curve, ob["curve"], tol if tol else 0.0)
        if not ok and exact:
            ok, why = O.same_curve(curve, ob["curve"], 1e-12 * L)
        if not ok:
            case.violate("%s does not reproduce the described curve: %s" % (name, why), constructor=name)
            continue
        if len(ob["curve"]) != len(curve):
            case.violate("%s has %d segments, the description %d" % (name, len(ob["curve"]), len(curve)), constructor=name)
            continue
        want_v = want_vertices
        if [len(sg) for sg in ob["curve"]] != [len(sg) for sg in curve]:
            # the library degree-reduced a reducible segment (allowed: the curve is the same, see
            # same_curve above): the list must then agree with the stored segments
            case.count("constructors:degree-reduced-by-library")
            want_v = []
            for sg in ob["curve"]:
                want_v += list(sg[:-1])
        if not rotations_equal(want_v, ob["vertices"], float(tol) if tol else 0.0) and not rotations_equal(want_v, ob["vertices"], 1e-12 * L):
            case.violate("%s.vertices does not list every control point once, in order: %d listed, %d expected" % (
                name, len(ob["vertices"]), len(want_v)), constructor=name)
        for msg, det in P.junction_identity_violations(obj)[:1]:
            case.violate("%s: %s" % (name, msg), constructor=name)
        # box encloses the curve
        lo = (ob["box"][0], ob["box"][1])
        hi = (ob["box"][2], ob["box"][3])
        slack = Fr(1e-9 * L)
        for seg in curve:
            for k in range(33):
                p = O.evaluate(seg, Fr(k, 32))
                if not (lo[0] - slack <= p[0] <= hi[0] + slack and lo[1] - slack <= p[1] <= hi[1] + slack):
                    case.violate("%s.box() does not enclose the curve point %s" % (name, S.fmt_point((float(p[0]), float(p[1])))), constructor=name)
                    break
            else:
                continue
            break
        if (ob["length"] > 0) != (orient > 0):
            case.violate("%s: sign of float(curve) is %s but the curve is %s" % (
                name, "positive" if ob["length"] > 0 else "negative", "counter-clockwise" if orient > 0 else "clockwise"), constructor=name)
        if not (chord * (1 - 1e-9) <= abs(ob["length"]) <= hull * (1 + 1e-9)):
            case.violate("%s: |float(curve)| = %r is outside [chord polygon %r, control polygon %r]" % (name, abs(ob["length"]), chord, hull),
                         constructor=name)
        got_area, exc = call(shapepy.IntegrateJordan.area, obj)
        if exc is not None or abs(float(got_area) - float(area)) > 1e-9 * max(abs(float(area)), hull * hull * 1e-3):
            case.violate("%s: area %r, exact %r" % (name, exc_text(exc) if exc else float(got_area), float(area)), constructor=name)
    names = sorted(observed)
    for i in range(len(names)):
        for j in range(i + 1, len(names)):
            a, b = observed[names[i]], observed[names[j]]
            if abs(a["length"] - b["length"]) > 1e-12 * max(abs(a["length"]), 1e-300) * 10:
                case.violate("signed length differs between %s (%r) and %s (%r)" % (names[i], a["length"], names[j], b["length"]))
            for u, v in zip(a["box"], b["box"]):
                if abs(float(u - v)) > (1e-12 * L if not exact else 0):
                    case.violate("box differs between %s and %s" % (names[i], names[j]))
                    break
            eq, exc = call(lambda: built[names[i]] == built[names[j]])
            case.count("constructors:eq-judged")
            if exc is not None:
                case.violate("%s == %s raised %s" % (names[i], names[j], exc_text(exc)))
            elif eq is not True:
                case.violate("%s == %s is %r" % (names[i], names[j], eq))
    malformed(case, rng, segs, num)
    case.nontrivial = len(observed) >= 2
    return case.finish()
