"""C05 -- operator results are measure-consistent (inclusion-exclusion).

Conservation monitor over operator executions: the exact moments (order <= 2) of the
*snapshots* of A, B and of every result are computed by the oracle, so the identities test
the operators and not the library's quadrature; the library's own IntegrateShape values are
checked against the same identities as a second observation.
"""
from __future__ import annotations

from fractions import Fraction as Fr

from vf import gen as G, model as M, opwork as W, oracle as O, props as P, snapshot as S
from vf.checks.common import Case, call, exc_text

ID = "C05"
TECHNIQUE = "runtime monitoring: conservation monitor (inclusion-exclusion of exact moments) over operator executions"
LEVEL = "exploration"
RULE = ("the operand pair generator of C01 (all kinds^2, int/Fraction/float, degrees 1-3, far / nested / overlapping / close) "
        "and root nodes of random programs; for each pair the five results A|B, A&B, A-B, A^B, ~A and the six moments "
        "x^a y^b, a+b <= 2, are put into the identities m(A|B)+m(A&B)=m(A)+m(B), m(A-B)=m(A)-m(A&B), m(A^B)=m(A|B)-m(A&B), "
        "m(~A)=-m(A); non-trivial = the operand boundaries cross and all identities were judged; distinct = distinct specs")
ASSUMPTIONS = [
    "oracle: exact moments of the snapshots by Green's theorem in rational arithmetic (Whole and Empty count 0, unbounded "
    "shapes by the negative convention)",
    "rational polygons: exact equality while no crossing parameter times a vertex denominator exceeds 10**9 (otherwise the "
    "library may round vertices by 1e-9 and 1e-8 relative is used); float and curved: 1e-5 relative to the sum of |terms|",
    "a case in which an operator raises is C01's business and is inconclusive here",
]
DECIDING_MONITORS = ("identity:judged",)
CASE_TIMEOUT = 300
SHARD_SIZE = 8
EXPONENTS = [(0, 0), (1, 0), (0, 1), (2, 0), (1, 1), (0, 2)]


def budget(tier):
    return 192 if tier == "quick" else 2400


def moments(region):
    return [O.region_moment(region, a, b) for a, b in EXPONENTS]


def lib_moments(shape):
    import shapepy

    if not hasattr(shape, "jordans"):
        return [0] * len(EXPONENTS)
    return [shapepy.IntegrateShape.polynomial(shape, a, b) for a, b in EXPONENTS]


def rule_exact(ea, eb, regions):
    """the documented rule (open Newton-Cotes with 3 + (a+1) + b + degree nodes per segment) integrates
    x^a y^b dy exactly on every boundary segment of the given regions (same criterion as C04)"""
    maxdeg = 1
    for reg in regions:
        if reg is None:
            continue
        for c in O.region_curves(reg):
            for seg in c:
                maxdeg = max(maxdeg, len(seg) - 1)
    return maxdeg == 1 or (ea + eb + 2) * maxdeg - 1 <= (3 + ea + 1 + eb + maxdeg) - 1


def case(ctx):
    rng = ctx.rng
    if ctx.index % 5 == 4:
        # operands are the values of two sub-programs (nested expressions)
        nleaves = rng.randint(2, 3)
        num = rng.choice(["int", "frac", "float"])
        specs = []
        for i in range(nleaves):
            off = (rng.uniform(-8, 8), rng.uniform(-8, 8))
            if num == "int":
                off = (round(off[0] * 4), round(off[1] * 4))
            s, _ = G.random_shape(rng, rng.choice("SSSCDU"), num, False, off, 10.0 * rng.choice([0.5, 1.0]))
            specs.append(s)
        p1, p2 = W.random_program(rng, nleaves, 1), W.random_program(rng, nleaves, rng.randint(1, 2))
        case = Case(ctx, {"leaves": specs, "X": W.program_text(p1), "Y": W.program_text(p2)}, "nested-%s" % num)
        leaves = [G.build(s) for s in specs]
        try:
            A = W.eval_program(p1, leaves)
            B = W.eval_program(p2, leaves)
        except W.ProgramFailure as exc:
            case.unsure("sub-program raised: %s" % exc)
            return case.finish()
        build = lambda: (A, B)
        nested = True
    else:
        sa, sb, info = W.make_pair(rng, curved_prob=0.2)
        case = Case(ctx, {"A": sa, "B": sb, "kinds": info["ka"] + info["kb"]},
                    "pair-%s" % ("curved" if (G.spec_is_curved(sa) or G.spec_is_curved(sb)) else G.spec_num(sa)))
        build = lambda: (G.build(sa), G.build(sb))
        nested = False
    A, B = build()
    ra, rb = S.snap_shape(A), S.snap_shape(B)
    cls = W.pair_class(ra, rb)
    case.tags.update(W.config_tags([ra, rb]))
    case.tags["contact"] = cls["contact"]
    case.stratum += "-" + cls["class"]
    rational = W.is_rational_region(A) and W.is_rational_region(B) and S.is_exact_region(ra) and S.is_exact_region(rb)
    exact = rational and W.cap_safe(ra, rb) and not nested
    results = {}
    for name, fn in (("or", lambda a, b: a | b), ("and", lambda a, b: a & b), ("sub", lambda a, b: a - b),
                     ("xor", lambda a, b: a ^ b), ("inv", lambda a, b: ~a)):
        a, b = build()
        guard = P.BigNumGuard()
        guard.install()
        try:
            res, exc = P.guarded_call(fn, a, b)
        finally:
            guard.remove()
        if exc is not None:
            case.count("operator-raised:%s" % name)
            results[name] = None
        else:
            results[name] = res
    mA, mB = moments(ra), moments(rb)
    snaps = {k: (S.snap_shape(v) if v is not None else None) for k, v in results.items()}
    mom = {k: (moments(v) if v is not None else None) for k, v in snaps.items()}
    try:
        lib = {k: (lib_moments(v) if v is not None else None) for k, v in results.items()}
        libA, libB = lib_moments(A), lib_moments(B)
    except Exception as exc:
        lib = None
        case.count("library-moments-raised")
    identities = [
        ("m(A|B) + m(A&B) = m(A) + m(B)", ["or", "and"], lambda m, k: (m["or"][k] + m["and"][k], mA_[k] + mB_[k])),
        ("m(A-B) = m(A) - m(A&B)", ["sub", "and"], lambda m, k: (m["sub"][k], mA_[k] - m["and"][k])),
        ("m(A^B) = m(A|B) - m(A&B)", ["xor", "or", "and"], lambda m, k: (m["xor"][k], m["or"][k] - m["and"][k])),
        ("m(~A) = -m(A)", ["inv"], lambda m, k: (m["inv"][k], -mA_[k])),
    ]
    judged_all = True
    for source, table, ma, mb in (("oracle moments of the result snapshots", mom, mA, mB),
                                  ("library IntegrateShape values", lib, None, None)):
        if table is None:
            continue
        if source.startswith("library"):
            ma, mb = libA, libB
        mA_, mB_ = ma, mb
        for text, needs, fn in identities:
            if any(table.get(n) is None for n in needs):
                judged_all = False
                continue
            for k, (ea, eb) in enumerate(EXPONENTS):
                if source.startswith("library") and not rule_exact(ea, eb, [ra, rb] + [snaps[n] for n in needs]):
                    # the library's documented quadrature is not exact for this integrand on these segment
                    # degrees (C04 bounds that error); its values then do not add up exactly although the
                    # regions do -- the oracle moments above judge the identity itself
                    case.count("identity:library-rule-not-exact-skipped")
                    continue
                try:
                    lhs, rhs = fn(table, k)
                except Exception as exc:
                    case.violate("%s cannot be evaluated on the %s: %s" % (text, source, exc_text(exc)))
                    break
                case.count("identity:judged")
                case.judged()
                terms = [abs(float(table[n][k])) for n in needs] + [abs(float(mA_[k])), abs(float(mB_[k]))]
                # moments that vanish by symmetry: rounding is relative to (extent)^(a+b+2)
                scale = max(sum(terms), float(case.tags.get("maxcoord") or 0.0) ** (ea + eb + 2) if not (exact or rational) else sum(terms))
                diff = abs(float(Fr(lhs) - Fr(rhs))) if (isinstance(lhs, (int, Fr)) and isinstance(rhs, (int, Fr))) else abs(float(lhs) - float(rhs))
                if exact and source.startswith("oracle"):
                    bad = lhs != rhs
                    tol_text = "exactly"
                elif rational:
                    bad = diff > 1e-8 * max(scale, 1e-30)
                    tol_text = "to 1e-8 relative"
                else:
                    bad = diff > 1e-5 * max(scale, 1e-30)
                    tol_text = "to 1e-5 relative"
                if bad:
                    case.violate("%s fails %s for the moment x^%d y^%d (%s): %r vs %r (class %s)" % (
                        text, tol_text, ea, eb, source, float(lhs), float(rhs), cls["class"]),
                        identity=text, exponent=[ea, eb], source=source,
                        results={n: S.region_to_json(snaps[n]) for n in needs if snaps.get(n) is not None} if len(str(snaps)) < 20000 else None)
                    break
            if case.violations:
                break
        if case.violations:
            break
    case.nontrivial = judged_all and cls["class"] == "crossing"
    return case.finish()
