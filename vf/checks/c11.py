"""C11 -- a call that raises or is interrupted leaves its operands intact.

Fault enumeration with source-free failpoints (sys.monitoring): for each operation the
internal call boundaries inside shapepy frames are counted in a dry run, then the
operation is repeated on freshly built operands with an exception injected at the k-th
boundary, for every k (quick: all k of a fixed set of operations; thorough: more operations,
random operand pairs and statement-level injection inside the functions that edit state in
place).  After every injected run each operand must still denote the region of its
pre-snapshot and answer a query battery like a fresh twin.  Second part: every in-place
transformation x hostile argument must either succeed or raise with the shape unchanged.
"""
from __future__ import annotations

import copy as _copy
from fractions import Fraction as Fr

from vf import faults, gen as G, oracle as O, snapshot as S
from vf.checks.common import Case, call, exc_text

ID = "C11"
TECHNIQUE = "runtime monitoring with fault injection: sys.monitoring failpoints at internal call boundaries / statements, operand snapshots after each injected run"
LEVEL = "fault_enumeration"
RULE = ("operations (containment of shapes/curves/points, | & - ^ ~, ==, integrals, copy, float) on operand "
        "combinations that reach in-place edits (connected-in-simple, short-cuts of | and &, splitting operators, "
        "unbounded operands) x every internal call boundary k=1..N inside shapepy frames (exception injected at the "
        "k-th boundary; thorough adds random operand pairs and statement-level injection in the state-editing functions) "
        "+ in-place transformations x hostile arguments; one case = one operation x one stride of boundaries, or one batch "
        "of hostile arguments; non-trivial = an injected run whose exception reached the caller and whose operands were "
        "compared; distinct = distinct (operation, boundary site) pairs, counted in coverage.distinct_sites")
ASSUMPTIONS = [
    "an exception surfacing at a call instruction of a shapepy frame models every way a callee can fail; asynchronous "
    "interrupts are approximated by statement-level (LINE) injection in shapepy frames",
    "no injection while a numpy object loop is on the stack (numpy would turn it into a SystemError); interrupts "
    "inside numpy/pynurbs C code are not modelled",
    "operand comparison: exact snapshot equality, or re-segmentation equivalence (splitting is allowed) through the "
    "oracle's same_curve",
]
DECIDING_MONITORS = ("inject:operands-compared",)
CASE_TIMEOUT = 600
SHARD_SIZE = 1
USE_REACH = True

STRIDES = {"quick": 1, "thorough": 16}
QUICK_STRIDES = {"polygon ^ polygon (crossing)": 10, "polygon - polygon (crossing)": 5, "connected & simple (contained)": 4,
                 "polygon & polygon (crossing)": 4, "copy of disjoint": 3, "polygon == rotated polygon": 2, "simple | connected (contained)": 3}
QUICK_SAMPLE = 30
PROBE_EVERY = {"quick": 40, "thorough": 6}
LINE_FUNCTIONS = (
    "SimpleShape._contains_shape", "JordanCurve.invert", "JordanCurve.split",
    "JordanCurve.__split_segment", "JordanCurve.segments", "FollowPath.split_two_jordans",
    "PlanarCurve.invert", "JordanCurve.clean", "BezierCurve.clean", "JordanCurve.from_segments",
    "FollowPath.or_shapes", "FollowPath.and_shapes", "JordanCurve.move", "JordanCurve.scale",
    "JordanCurve.rotate", "DefinedShape.move", "DefinedShape.scale", "DefinedShape.rotate",
)


# ----------------------------------------------------------------------------------
# operations
# ----------------------------------------------------------------------------------

def _sq(side, center=(0, 0)):
    import shapepy

    return shapepy.Primitive.square(side, center)


def _hollow():
    return _sq(4) - _sq(2)


def _poly(verts):
    import shapepy

    return shapepy.Primitive.polygon(verts)


def ops_fixed():
    """name -> (build() -> operands, run(operands))"""
    import shapepy
    from shapepy import IntegrateShape

    ops = {}
    ops["connected in simple"] = (lambda: [_hollow(), _sq(6)], lambda o: o[0] in o[1])
    ops["simple | connected (contained)"] = (lambda: [_sq(6), _hollow()], lambda o: o[0] | o[1])
    ops["connected & simple (contained)"] = (lambda: [_hollow(), _sq(6)], lambda o: o[0] & o[1])
    ops["polygon & polygon (crossing)"] = (
        lambda: [_poly([(0, 0), (4, 0), (4, 3), (0, 3)]), _poly([(2, 1), (6, 2), (5, 5), (1, 4)])],
        lambda o: o[0] & o[1])
    ops["polygon - polygon (crossing)"] = (
        lambda: [_poly([(0, 0), (5, 1), (4, 4), (1, 5)]), _poly([(2, -1), (6, 2), (3, 6)])],
        lambda o: o[0] - o[1])
    ops["polygon ^ polygon (crossing)"] = (
        lambda: [_poly([(0, 0), (4, 0), (4, 3), (0, 3)]), _poly([(2, 1), (6, 2), (5, 5), (1, 4)])],
        lambda o: o[0] ^ o[1])
    ops["polygon == rotated polygon"] = (
        lambda: [_poly([(0, 0), (4, 0), (4, 3), (0, 3)]), _poly([(4, 3), (0, 3), (0, 0), (4, 0)])],
        lambda o: o[0] == o[1])
    ops["moment of connected"] = (lambda: [_hollow()], lambda o: IntegrateShape.polynomial(o[0], 1, 1))
    ops["copy of disjoint"] = (lambda: [_sq(1, (-3, 0)) | _hollow().move(5, 0)], lambda o: _copy.deepcopy(o[0]))
    ops["point in connected"] = (lambda: [_hollow()], lambda o: (Fr(3, 2), Fr(1, 7)) in o[0])
    ops["curve in unbounded simple"] = (
        lambda: [~_sq(2), _sq(1, (5, 5)).jordans[0]], lambda o: o[1] in o[0])
    ops["unbounded in unbounded"] = (lambda: [~_sq(4), ~_sq(2)], lambda o: o[0] in o[1])
    ops["~connected"] = (lambda: [_hollow()], lambda o: ~o[0])
    ops["float(disjoint)"] = (lambda: [_sq(1, (-3, 0)) | _sq(1, (3, 0))], lambda o: float(o[0]))
    ops["disjoint in simple"] = (lambda: [_sq(1, (-2, 0)) | _sq(1, (2, 0)), _sq(8)], lambda o: o[0] in o[1])
    return ops


def ops_thorough():
    import shapepy

    ops = ops_fixed()
    P = shapepy.Primitive
    ops["circle & square (crossing, curved)"] = (
        lambda: [P.circle(1.0, (0, 0), 4), P.square(1.2, (0.7, 0.2))], lambda o: o[0] & o[1])
    ops["disjoint | simple (crossing one component)"] = (
        lambda: [_sq(2, (-3, 0)) | _sq(2, (3, 0)), _poly([(1, -2), (5, -1), (4, 2), (2, 1)])], lambda o: o[0] | o[1])
    ops["connected - simple (crossing hole)"] = (
        lambda: [_sq(8) - _sq(2), _poly([(0, 0), (6, 1), (5, 3), (1, 2)])], lambda o: o[0] - o[1])
    ops["connected in connected"] = (lambda: [_sq(6) - _sq(2), _sq(8) - _sq(1)], lambda o: o[0] in o[1])
    ops["simple in disjoint"] = (lambda: [_sq(1, (2, 0)), _sq(2, (-3, 0)) | _sq(2, (2, 0))], lambda o: o[0] in o[1])
    ops["connected == connected"] = (lambda: [_hollow(), _sq(4) - _sq(2)], lambda o: o[0] == o[1])
    ops["curve == curve"] = (
        lambda: [_sq(2).jordans[0], _poly([(1, -1), (1, 1), (-1, 1), (-1, -1)]).jordans[0]], lambda o: o[0] == o[1])
    ops["curve & curve"] = (
        lambda: [_sq(2).jordans[0], _sq(2, (1, 1)).jordans[0]], lambda o: o[0] & o[1])
    ops["abs(curve)"] = (lambda: [(~_sq(2)).jordans[0]], lambda o: abs(o[0]))
    ops["connected + simple (disjoint)"] = (lambda: [_hollow(), _sq(1, (9, 0))], lambda o: o[0] + o[1])
    ops["simple * unbounded"] = (lambda: [_sq(4), ~_sq(2, (2, 0))], lambda o: o[0] * o[1])
    return ops


# ----------------------------------------------------------------------------------
# oracle
# ----------------------------------------------------------------------------------

def snap_any(obj):
    return S.snap(obj)


MEMO_FUNCTIONS = ("Math.bezier_caract_matrix", "Math.comb", "Operations.degree_decrease", "Derivate.non_rational_bezier_once",
                  "Derivate.non_rational_bezier")


def clear_memo_tables():
    """cold module-level memo tables (if they exist under their current names)"""
    from shapepy import curve as crv

    for owner, attr in (("Math", "_Math__caract_matrix"), ("Operations", "_Operations__degree_decre"),
                        ("Derivate", "_Derivate__non_rat_bezier_once")):
        tab = getattr(getattr(crv, owner, None), attr, None)
        if isinstance(tab, dict):
            tab.clear()


def history_probe(obj):
    """answers after a further in-place move of the object (compared with a twin treated alike):
    state left behind by an interrupted call may only show after the geometry changes"""
    import shapepy

    if isinstance(obj, shapepy.JordanCurve) or not hasattr(obj, "jordans"):
        return []
    obj.move(100, 7)
    P = shapepy.Primitive
    ring = P.square(3, (100, 7)) - P.square(1, (100, 7))
    out = [("float", round(float(obj), 9)), ("ring in obj", bool(ring in obj)), ("obj in big", bool(obj in P.square(4000, (100, 7))))]
    for p in ((100.1, 7.2), (101.5, 7.3), (0.1, 0.2), (140.0, 47.0)):
        out.append((p, bool(p in obj)))
    obj.move(-100, -7)
    return out


def battery(obj):
    """answers of a few cheap queries (compared between the live object and a fresh twin)"""
    import shapepy

    out = []
    if isinstance(obj, shapepy.JordanCurve):
        out.append(("float", round(float(obj), 9)))
        box = obj.box()
        out.append(("box", tuple(map(float, box.lowpt)), tuple(map(float, box.toppt))))
        return out
    out.append(("float", round(float(obj), 9)))
    for p in ((0.1, 0.2), (1.5, 0.3), (2.5, 2.5), (-3.1, 0.2), (5.2, 0.1), (40.0, 40.0)):
        out.append((p, bool(p in obj)))
    return out


def compare_operands(case, opname, site, operands, before, twins_battery, probes=None):
    case.count("inject:operands-compared", len(operands))
    for k, (obj, snap0) in enumerate(zip(operands, before)):
        snap1 = snap_any(obj)
        if snap1 == snap0:
            ok = True
        else:
            exact = S.is_exact_region(snap0)
            ok, why = S.same_denotation(snap0, snap1, 0.0 if exact else S.region_tol(snap0, 1e-9))
            if not ok:
                case.violate("operand %d of '%s' no longer denotes its region after an exception injected at %s: %s" % (
                    k, opname, site, why), operation=opname, site=str(site),
                    before=S.region_to_json(snap0), after=S.region_to_json(snap1))
                return False
        got, exc = call(battery, obj)
        if exc is not None:
            case.violate("operand %d of '%s' cannot be queried after an exception injected at %s: %s" % (
                k, opname, site, exc_text(exc)), operation=opname, site=str(site))
            return False
        if got != twins_battery[k]:
            diff = [(a, b) for a, b in zip(got, twins_battery[k]) if a != b]
            case.violate("operand %d of '%s' answers differently after an exception injected at %s: %s" % (
                k, opname, site, diff[:3]), operation=opname, site=str(site))
            return False
        if probes is not None and probes[k] is not None:
            got, exc = call(history_probe, obj)
            case.count("inject:history-probes")
            if exc is not None or got != probes[k]:
                diff = [(a, b) for a, b in zip(got or [], probes[k]) if a != b]
                case.violate("operand %d of '%s', moved in place after an exception injected at %s, answers %s (a twin treated alike: second of each pair)" % (
                    k, opname, site, exc_text(exc) if exc else diff[:3]), operation=opname, site=str(site))
                return False
    return True


def enumerate_op(case, ctx, opname, build, run, mode, stride, offset, sample=None, cold=False):
    inj = faults.Injector(mode=mode, line_functions=LINE_FUNCTIONS if mode == "line" else None)
    inj.install()
    sites_seen = set()
    try:
        try:
            run(build())   # warm-up: fills the memo tables, so that the surveyed run is typical
        except Exception:
            pass
        if cold:
            clear_memo_tables()   # cold mode: the surveyed and the injected runs fill the tables themselves
        operands = build()
        inj.survey_start()
        try:
            run(operands)
            dry_exc = None
        except Exception as exc:
            dry_exc = exc
        finally:
            inj.survey_stop()
        total = inj.count
        sites = [(c.co_qualname, w) for c, w, _ in inj.sites]
        case.count("inject:boundaries-counted", total)
        if total == 0:
            case.unsure("operation '%s' has no %s boundary" % (opname, mode))
            return 0, 0
        twins = [battery(o) for o in build()]
        probes = []
        for o in build():
            pr, exc = call(history_probe, o)
            probes.append(pr if exc is None else None)
        ks = list(range(1 + offset, total + 1, stride))
        if cold:
            # only the boundaries inside the functions that fill the module-level memo tables
            ks = [k for k in range(1, total + 1) if sites[k - 1][0] in MEMO_FUNCTIONS]
            sample = None
            if ctx.tier == "quick" and len(ks) > 14:
                # an injected run with cold tables recomputes the least-squares matrices (seconds)
                ctx.rng.shuffle(ks)
                ks = sorted(ks[:14])
        if sample == "auto":
            # thorough: every boundary of operations with up to ~8000 boundaries; beyond that, per
            # stride, the first occurrence of every site plus 400 sampled boundaries
            sample = None if len(ks) <= 500 else 400
        if sample is not None and len(ks) > sample:
            # first occurrence (within this stride) of every distinct site + a seeded sample
            first = {}
            for idx, site in enumerate(sites, start=1):
                if (idx - 1 - offset) % stride:
                    continue
                first.setdefault(site, idx)
            keep = set(first.values())
            rest = [k for k in ks if k not in keep]
            ctx.rng.shuffle(rest)
            ks = sorted(keep | set(rest[:max(0, sample - len(keep))]))
        fired = 0
        for k in ks:
            operands = build()
            before = [snap_any(o) for o in operands]
            if cold:
                clear_memo_tables()
            inj.arm(k)
            surfaced = None
            try:
                run(operands)
            except faults.InjectedFault as exc:
                surfaced = exc
            except BaseException as exc:  # the library turned it into something else
                if isinstance(exc, (KeyboardInterrupt, SystemExit)):
                    inj.disarm()
                    raise
                surfaced = exc
            finally:
                inj.disarm()
            site = inj.fired_at if inj.fired_at else (sites[k - 1] if k - 1 < len(sites) else "?")
            case.count("inject:runs")
            if inj.fired_at is None:
                case.count("inject:not-fired")
                continue
            fired += 1
            sites_seen.add((opname, site[0], site[1]))
            if surfaced is None:
                case.count("inject:swallowed")
            case.judged()
            if not compare_operands(case, opname, "%s+%s (boundary %d/%d, %s%s)" % (site[0], site[1], k, total, mode, ", cold memo tables" if cold else ""),
                                    operands, before, twins, probes if (fired % PROBE_EVERY[ctx.tier] == 0 or cold) else None):
                if len(case.violations) >= 3:
                    break
        case.spec.setdefault("sites", 0)
        case.spec["sites"] += len(sites_seen)
        case.site_keys |= {"%s|%s|%s" % s for s in sites_seen}
        return total, fired
    finally:
        inj.uninstall()


# ----------------------------------------------------------------------------------
# hostile arguments of the in-place transformations
# ----------------------------------------------------------------------------------

class NoFloat:
    def __float__(self):
        raise TypeError("no float")


class FloatOnly:
    """converts to float but supports no arithmetic"""

    def __float__(self):
        return 2.0


def hostile_calls():
    import numpy as np

    nan = float("nan")
    bad = ["a", "3", None, 1j, NoFloat(), FloatOnly(), [1, 2], (1, 2, 3), np.array([1.0, 2.0]), {}, b"1"]
    calls = []
    for b in bad:
        calls.append(("move(%r)" % (b,), lambda s, b=b: s.move(b)))
        calls.append(("move(1, %r)" % (b,), lambda s, b=b: s.move(1, b)))
        calls.append(("move((%r, 2))" % (b,), lambda s, b=b: s.move((b, 2))))
        calls.append(("scale(%r, 2)" % (b,), lambda s, b=b: s.scale(b, 2)))
        calls.append(("scale(2, %r)" % (b,), lambda s, b=b: s.scale(2, b)))
        calls.append(("rotate(%r)" % (b,), lambda s, b=b: s.rotate(b)))
        calls.append(("rotate(%r, degrees=True)" % (b,), lambda s, b=b: s.rotate(b, degrees=True)))
    calls.append(("move()", lambda s: s.move()))
    calls.append(("move(1, 2, 3)", lambda s: s.move(1, 2, 3)))
    calls.append(("scale(2)", lambda s: s.scale(2)))
    return calls


def hostile_case(case, ctx):
    import shapepy

    rng = ctx.rng
    calls = hostile_calls()
    kinds = "SCDUV"
    for _ in range(3):
        kind = rng.choice(kinds)
        num = rng.choice(["int", "frac", "float"])
        spec, _ = G.random_shape(rng, kind, num, False, (0, 0), 10.0)
        for name, fn in calls:
            targets = [("shape", lambda: G.build(spec))]
            targets.append(("curve", lambda: G.build(spec).jordans[0]))
            for tname, make in targets:
                obj = make()
                before = snap_any(obj)
                raw_before = [repr(v) for v in S.raw_numbers(obj)]
                _, exc = call(fn, obj)
                case.count("hostile:calls")
                if exc is None:
                    case.count("hostile:accepted")
                    continue
                case.count("hostile:rejected-judged")
                case.judged()
                after = snap_any(obj) if all(_is_num(v) for v in S.raw_numbers(obj)) else None
                raw_after = [repr(v) for v in S.raw_numbers(obj)]
                if after != before or raw_before != raw_after:
                    changed = [(a, b) for a, b in zip(raw_before, raw_after) if a != b][:3]
                    case.violate("%s.%s raised %s but left the %s modified (%d coordinates changed, e.g. %s)" % (
                        tname, name, exc_text(exc), kind + "/" + num,
                        sum(1 for a, b in zip(raw_before, raw_after) if a != b), changed),
                        call=name, target=tname, shape=spec)
                    if len(case.violations) >= 6:
                        return


def _is_num(v):
    try:
        O.to_fr(v)
        return True
    except Exception:
        return False


# ----------------------------------------------------------------------------------
# cases
# ----------------------------------------------------------------------------------

def plan(tier):
    """list of case descriptors"""
    out = []
    names = sorted(ops_fixed()) if tier == "quick" else sorted(ops_thorough())
    for name in names:
        stride = QUICK_STRIDES.get(name, 1) if tier == "quick" else STRIDES[tier]
        for off in range(stride):
            out.append(("call", name, off))
    if tier == "thorough":
        for name in names:
            for off in range(4):
                out.append(("line", name, off))
        for i in range(48):
            out.append(("random", i, 0))
    for name in (("polygon & polygon (crossing)",) if tier == "quick" else
                 ("moment of connected", "polygon & polygon (crossing)", "circle & square (crossing, curved)", "copy of disjoint")):
        out.append(("cold", name, 0))
    for i in range(4 if tier == "quick" else 24):
        out.append(("hostile", i, 0))
    return out


def budget(tier):
    return len(plan(tier))


def random_op(rng):
    """random operand pair + operator (polygons; general position is not required: the
    property holds for every operand)"""
    from vf import model as M

    num = rng.choice(["int", "frac", "float"])
    ka, kb = rng.choice("SSCDU"), rng.choice("SSCDU")
    off = (rng.uniform(-6, 6), rng.uniform(-6, 6))
    if num == "int":
        off = (round(off[0] * 10), round(off[1] * 10))
    sa, _ = G.random_shape(rng, ka, num, False, (0, 0), 10.0)
    sb, _ = G.random_shape(rng, kb, num, False, off, 10.0)
    opname = rng.choice(["or", "and", "sub", "xor", "in", "eq"])
    if opname == "in":
        run = lambda o: o[0] in o[1]
    elif opname == "eq":
        run = lambda o: o[0] == o[1]
    else:
        fn = M.BINARY[opname]
        run = lambda o: fn(o[0], o[1])
    return "random %s%s %s (%s)" % (ka, kb, opname, num), (lambda: [G.build(sa), G.build(sb)]), run, {"A": sa, "B": sb, "op": opname}


def case(ctx):
    tier = ctx.tier
    what, name, off = plan(tier)[ctx.index]
    case = Case(ctx, {"kind": what, "operation": str(name), "offset": off}, what)
    case.site_keys = set()
    if what == "hostile":
        hostile_case(case, ctx)
        case.nontrivial = case.decided > 0
        rec = case.finish()
        rec["site_keys"] = []
        return rec
    stride = QUICK_STRIDES.get(name, 1) if tier == "quick" else STRIDES[tier]
    if what == "random":
        opname, build, run, spec = random_op(ctx.rng)
        case.spec.update(spec)
        case.spec["operation"] = opname
        total, fired = enumerate_op(case, ctx, opname, build, run, "call", 1, 0, sample=150)
    else:
        ops = ops_fixed() if tier == "quick" else ops_thorough()
        build, run = ops[name]
        if what == "cold":
            total, fired = enumerate_op(case, ctx, name, build, run, "call", 1, 0, sample=None, cold=True)
            # leave warm tables behind for the cases that follow in this process
            try:
                run(build())
            except Exception:
                pass
        elif what == "line":
            total, fired = enumerate_op(case, ctx, name, build, run, "line", 4, off, sample=400)
        else:
            sample = QUICK_SAMPLE if tier == "quick" else (250 if name.startswith("circle") else "auto")
            total, fired = enumerate_op(case, ctx, name, build, run, "call", stride, off, sample=sample)
    case.spec["boundaries"] = total
    case.spec["injected"] = fired
    case.nontrivial = fired > 0
    rec = case.finish()
    rec["site_keys"] = sorted(case.site_keys)
    rec["key"] = "%s|%s|%s" % (what, case.spec["operation"], off)
    return rec


def extra_coverage(records):
    sites = set()
    runs = 0
    per_op = {}
    for rec in records:
        sites.update(rec.get("site_keys", ()))
        runs += rec.get("monitors", {}).get("inject:runs", 0)
        op = (rec.get("spec") or {}).get("operation")
        if op and rec.get("spec", {}).get("kind") in ("call", "line"):
            d = per_op.setdefault("%s/%s" % (rec["spec"]["kind"], op), {"boundaries": 0, "injected": 0})
            d["boundaries"] = max(d["boundaries"], rec["spec"].get("boundaries", 0))
            d["injected"] += rec["spec"].get("injected", 0)
    return {"distinct_nontrivial": len(sites), "distinct_sites": len(sites), "injected_runs": runs, "per_operation": per_op,
            "exhaustive_over_boundaries": all(v["injected"] >= v["boundaries"] * 0.98 for k, v in per_op.items() if k.startswith("call/"))}
