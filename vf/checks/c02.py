"""C02 -- point membership is geometric truth, with the documented boundary rule.

Reference-model monitor: every answer of `p in S`, `S.contains_point(p, flag)` and
`p in jordan` on generated shapes is compared with the exact winding-number oracle on the
snapshot of the shape.  Points are judged only when the oracle certifies their clearance
from every boundary (or constructs them exactly on the boundary).
"""
from __future__ import annotations

import math
from fractions import Fraction as Fr

from vf import gen as G, oracle as O, snapshot as S
from vf.checks.common import Case, call, exc_text

ID = "C02"
TECHNIQUE = "runtime monitoring: reference-model monitor (exact winding-number oracle) on membership queries"
LEVEL = "exploration"
RULE = ("random shapes of every kind (simple, connected with holes, disjoint, unbounded variants, Empty, Whole), "
        "numeric kinds int/Fraction/float, degrees 1-3 (polygons, n-arc circles, Bezier blobs, mixed chains) x query "
        "points (uniform, graded distances 1e-4..1e-1 of the diameter on both sides of random boundary positions, "
        "chord-arc slivers of curved segments, far points up to 1e9, exact on-boundary points seg(t) and vertices); "
        "non-trivial = a shape with at least one boundary and >= 10 judged points; distinct = distinct case specs")
ASSUMPTIONS = [
    "oracle kernel: exact winding number by bounding-box bisection",
    "float/curved inputs: points certified >= max(1e-5, 1e-5*diameter) from every boundary, grazing points certified "
    ">= 2.5e-6 (absolute) away, or points constructed on the boundary (within rounding) are judged; closer points belong "
    "to the library's 1e-6 boundary rule",
    "rational polygons: points farther than 2e-6 are judged exactly; exact on-boundary points must follow the flag",
]
DECIDING_MONITORS = ("membership:judged",)
CASE_TIMEOUT = 120
SHARD_SIZE = 10


def budget(tier):
    return 160 if tier == "quick" else 3000


def sliver_points(rng, curve, n):
    """Points between a curved segment and its chords (degree chords as in the library's
    quadrature and finer ones)"""
    curved = [c for c in curve if len(c) > 2]
    pts = []
    for _ in range(n):
        if not curved:
            break
        ctrl = rng.choice(curved)
        pieces = rng.choice([1, len(ctrl) - 1, len(ctrl), 2 * len(ctrl), 8])
        k = rng.randrange(pieces)
        t0, t1 = Fr(k, pieces), Fr(k + 1, pieces)
        tm = (t0 + t1) / 2
        a, b = O.evaluate(ctrl, t0), O.evaluate(ctrl, t1)
        chord_mid = ((a[0] + b[0]) / 2, (a[1] + b[1]) / 2)
        arc_mid = O.evaluate(ctrl, tm)
        lam = Fr(rng.choice([1, 2, 3, 5, 6, 7]), 8)
        # from outside the chord (lam<0) to beyond the arc (lam>1)
        lam = lam * rng.choice([1, 1, 1, Fr(3, 2), Fr(-1, 2)])
        pts.append((chord_mid[0] + lam * (arc_mid[0] - chord_mid[0]), chord_mid[1] + lam * (arc_mid[1] - chord_mid[1])))
    return pts


def boundary_points(rng, curve, n):
    pts = []
    for _ in range(n):
        ctrl = rng.choice(curve)
        if rng.random() < 0.3:
            pts.append(ctrl[0])
        else:
            pts.append(O.evaluate(ctrl, Fr(rng.randint(1, 31), 32)))
    return pts


def case(ctx):
    import shapepy

    rng = ctx.rng
    kind = rng.choice("SSSSUUCCCDDNMVVEW")
    curved = rng.random() < 0.45
    num = None if curved else rng.choice(["int", "frac", "float"])
    size = rng.choice([1.0, 10.0, 10.0, 100.0])
    center = (rng.uniform(-20, 20), rng.uniform(-20, 20)) if rng.random() < 0.5 else (0, 0)
    if num == "int":
        center = (round(center[0]), round(center[1]))
    spec, info = G.random_shape(rng, kind, num, curved, center, size)
    if curved and kind in "SU" and rng.random() < 0.25:
        # curved boundary with exact rational control points
        maker = rng.choice([G.random_blob, G.random_bulged_rect, G.random_lens])
        kw = {"num": "frac", "cw": kind == "U"}
        if maker is G.random_blob:
            kw.update(degree=rng.choice([2, 3]))
        spec, info = maker(rng, (round(center[0]), round(center[1])), max(size, 4.0), **kw)
    if curved and kind in "SU" and rng.random() < 0.12:
        # a boundary made of a single closed cubic segment
        spec, info = G.random_teardrop(rng, (round(center[0]), round(center[1])), max(size, 4.0), cw=(kind == "U"),
                                       num=rng.choice(["float", "float", "frac"]))
    case = Case(ctx, {"shape": spec}, "%s-%s-%s" % (kind, "curved" if G.spec_is_curved(spec) else "straight", G.spec_num(spec)))
    shape = G.build(spec)
    region = S.snap_shape(shape)
    curves = O.region_curves(region)
    exact_shape = bool(curves) and S.is_exact_region(region) and G.spec_num(spec) in ("int", "frac")
    # ---- singletons -------------------------------------------------------------------
    if not curves:
        for _ in range(20):
            p = (rng.uniform(-1e6, 1e6), rng.uniform(-1e6, 1e6))
            got, exc = call(lambda: p in shape)
            case.count("membership:judged")
            case.judged()
            want = region[0] == "whole"
            if exc is not None or got is not want:
                case.violate("%s: (%r in shape) gives %r, expected %r" % (region[0], p, exc_text(exc) if exc else got, want))
        case.nontrivial = False
        return case.finish()
    box = O.curves_bbox(curves)
    diam = max(O.diameter(box), 1e-12)
    delta = Fr(2, 10 ** 6) if exact_shape else Fr(max(1e-5, 1e-5 * diam))
    # ---- candidate points --------------------------------------------------------------
    cands = []
    for p in G.random_points(rng, box, 24, exact_grid=(rng.choice([1, 4, 1000]) if exact_shape else None)):
        cands.append(("uniform", p))
    dists = [diam * 1e-4, diam * 1e-3, diam * 1e-2, diam * 1e-1]
    if exact_shape:
        dists = [Fr(1, 10 ** 5), Fr(1, 1000), Fr(1, 10), diam * 1e-2]
    for c in curves:
        for p in G.near_boundary_points(rng, c, max(4, 24 // len(curves)), dists):
            cands.append(("near", p))
        for p in sliver_points(rng, c, max(4, 30 // len(curves))):
            cands.append(("sliver", p))
    # grazing points: a few 1e-6 (absolute) away from the boundary, just outside the library's
    # documented 1e-6 boundary tolerance, whatever the size of the shape
    if not exact_shape:
        for c in curves:
            for p in G.near_boundary_points(rng, c, max(3, 12 // len(curves)), [3e-6, 5e-6, 1e-5, 3e-5]):
                cands.append(("graze", p))
    for _ in range(6):
        r = 10 ** rng.uniform(2, 9)
        ang = rng.uniform(0, math.tau)
        cands.append(("far", (Fr(r * math.cos(ang)), Fr(r * math.sin(ang)))))
    # points on the horizontal / vertical lines through vertices (atan2 branch cuts) and
    # collinear with straight edges, beyond their ends
    for c in curves:
        for _ in range(4):
            ctrl = rng.choice(c)
            v = ctrl[0]
            off = Fr(rng.choice([-3, -1, 1, 2]) * diam * rng.choice([0.05, 0.3, 1.5]))
            cands.append(("axis", (v[0] + off, v[1]) if rng.random() < 0.7 else (v[0], v[1] + off)))
            a, b = ctrl[0], ctrl[-1]
            lam = Fr(rng.choice([-3, -1, 3, 5]), 2)
            cands.append(("collinear", (a[0] + lam * (b[0] - a[0]), a[1] + lam * (b[1] - a[1]))))
    num = G.spec_num(spec)
    as_float = not exact_shape or rng.random() < 0.25
    judged = 0
    # ---- interior / exterior points ------------------------------------------------------
    for label, p in cands:
        if as_float:
            p = (Fr(float(p[0])), Fr(float(p[1])))
        try:
            want = O.region_contains(region, p, Fr(25, 10 ** 7) if label == "graze" else delta)
        except O.TooClose:
            case.count("points:not-judged-too-close")
            continue
        lp = (float(p[0]), float(p[1])) if as_float else p
        for name, fn in (("in", lambda: lp in shape), ("closed", lambda: shape.contains_point(lp, True)),
                         ("open", lambda: shape.contains_point(lp, False))):
            got, exc = call(fn)
            case.count("membership:judged")
            case.count("points:%s" % label)
            case.judged()
            judged += 1
            if exc is not None:
                case.violate("membership query raised: %s" % exc_text(exc), point=[str(p[0]), str(p[1])], label=label, query=name)
            elif got is not want and got != want:
                case.violate("membership: %s point %s (%s) -> library %r, oracle %r (clearance >= %g, diameter %g)" % (
                    label, S.fmt_point(lp), name, got, want, float(delta), diam),
                    point=[str(p[0]), str(p[1])], label=label, query=name)
            elif type(got) is not bool and not isinstance(got, (bool,)):
                case.count("membership:non-bool-answer")
        # curve membership of a certified-far point must be False
        jordan = shape.jordans[rng.randrange(len(shape.jordans))]
        got, exc = call(lambda: lp in jordan)
        case.count("on-curve:far-judged")
        if exc is not None:
            case.violate("point in curve raised: %s" % exc_text(exc), point=[str(p[0]), str(p[1])])
        elif got:
            case.violate("a point certified %g away from every boundary is reported on the curve" % float(delta),
                         point=[str(p[0]), str(p[1])])
    # ---- boundary points -------------------------------------------------------------------
    for ci, c in enumerate(curves):
        jordan = None
        for p in boundary_points(rng, c, max(3, 12 // len(curves))):
            lp = (float(p[0]), float(p[1])) if as_float else p
            for name, fn, want in (("in", lambda: lp in shape, True), ("closed", lambda: shape.contains_point(lp, True), True),
                                   ("open", lambda: shape.contains_point(lp, False), False)):
                got, exc = call(fn)
                case.count("membership:judged")
                case.count("points:on-boundary")
                case.judged()
                judged += 1
                if exc is not None:
                    case.violate("membership query raised on a boundary point: %s" % exc_text(exc), point=[str(p[0]), str(p[1])])
                elif bool(got) != want:
                    case.violate("boundary rule: point %s on boundary %d (%s) -> %r, expected %r" % (
                        S.fmt_point(lp), ci, name, got, want), point=[str(p[0]), str(p[1])], query=name)
            # the same point is on the curve object
            jordans = shape.jordans
            hit = False
            err = None
            for jordan in jordans:
                got, exc = call(lambda: lp in jordan)
                if exc is not None:
                    err = exc
                hit = hit or bool(got)
            case.count("on-curve:boundary-judged")
            if err is not None:
                case.violate("point in curve raised: %s" % exc_text(err), point=[str(p[0]), str(p[1])])
            elif not hit:
                case.violate("boundary point %s is on none of the shape's curves" % S.fmt_point(lp), point=[str(p[0]), str(p[1])])
    # operands untouched by queries (cheap side observation)
    after = S.snap_shape(shape)
    if after != region:
        ok, why = S.same_denotation(region, after, 0.0 if exact_shape else S.region_tol(region))
        if not ok:
            case.violate("membership queries changed the shape: " + why)
    case.nontrivial = judged >= 10
    return case.finish()
