"""C15 -- splitting and cleaning a curve never change the curve.

Post-conditions on the real JordanCurve.split / clean calls: the curve after the call is a
re-segmentation of the exact snapshot taken before it (orientation, point set, area), new
junctions lie at the oracle's evaluation of the parent segment at the requested parameter,
consecutive pieces share one Point2D object, no zero-length piece; clean is idempotent,
removes exactly the redundant junctions and undoes split when no piece was degree-reduced.
"""
from __future__ import annotations

from fractions import Fraction as Fr

from vf import gen as G, oracle as O, props as P, snapshot as S
from vf.checks.common import Case, call, exc_text

ID = "C15"
TECHNIQUE = "runtime monitoring: post-conditions on JordanCurve.split / clean (external and internal calls) against exact snapshots"
LEVEL = "exploration"
RULE = ("(a) random closed curves (polygons int/Fraction/float, n-arc circles, Bezier blobs of degree 2-3, mixed-degree "
        "chains) x random multisets of (segment, parameter) pairs including repeated, nearly equal (1e-17..1e-5 apart), "
        "near-0/1 and exact 0/1 parameters x sequences of up to 6 split/clean calls; non-trivial = at least one "
        "admissible interior parameter was split and judged; (b) every fifth case: the split calls that | & - ^ make "
        "internally on operand pairs of the C01 generator, judged by the same post-condition; distinct = distinct case specs")
ASSUMPTIONS = [
    "oracle kernel (de Casteljau evaluation, exact areas, same_curve)",
    "rational straight data is compared exactly; float and curved data within 1e-6*max(1, diameter) as the property states",
    "curved segments with Fraction control points are split but not compared with == (exact Newton iterations, see F16)",
]
DECIDING_MONITORS = ("split:judged", "clean:judged")
CASE_TIMEOUT = 400
SHARD_SIZE = 15


def budget(tier):
    return 240 if tier == "quick" else 4000


def random_curve_spec(rng):
    r = rng.random()
    size = rng.choice([1.0, 10.0, 10.0, 200.0])
    center = (rng.uniform(-30, 30), rng.uniform(-30, 30)) if rng.random() < 0.5 else (0, 0)
    if r < 0.45:
        num = rng.choice(["int", "frac", "float"])
        if num == "int":
            center = (round(center[0]), round(center[1]))
        spec, _ = G.random_polygon(rng, num, center, size)
        return spec, "poly-" + num
    if r < 0.6:
        spec, _ = G.random_circle(rng, center, size)
        return spec, "circle"
    degree = rng.choice([2, 3])
    mixed = rng.random() < 0.3
    r2 = rng.random()
    if r2 < 0.15:
        spec, _ = G.random_lens(rng, center, size)
        return spec, "lens"
    if r2 < 0.3:
        spec, _ = G.random_bulged_rect(rng, center, size)
        return spec, "bulged-rect"
    if r2 > 0.92:
        spec, _ = G.random_teardrop(rng, (round(center[0]), round(center[1])), size)
        return spec, "teardrop"
    spec, _ = G.random_blob(rng, center, size, degree=degree, mixed=mixed)
    if r2 < 0.4 and degree == 2 and not mixed:
        # the same quadratic chain given with degree-elevated (cubic) control polygons for some segments
        segs = []
        for seg in spec["segs"]:
            pts = [(G.exact(x), G.exact(y)) for x, y in seg]
            if len(pts) == 3 and rng.random() < 0.6:
                p0, p1, p2 = pts
                q1 = ((p0[0] + 2 * p1[0]) / 3, (p0[1] + 2 * p1[1]) / 3)
                q2 = ((2 * p1[0] + p2[0]) / 3, (2 * p1[1] + p2[1]) / 3)
                pts = [p0, q1, q2, p2]
            segs.append(pts)
        return G.ctrl_spec(segs, "float"), "blob-elevated"
    if rng.random() < 0.3:
        segs = G.blob_segments(rng, rng.choice([3, 4]), degree, center, 0.8 * size, size, False, bulge=2.2)
        spec = G.ctrl_spec(segs, "float")
        return spec, "blob-bulged-%d" % degree
    return spec, "blob-%s" % ("mixed" if mixed else degree)


def random_pairs(rng, nseg, exact):
    """(index, node) multiset"""
    k = rng.choice([1, 1, 2, 3, 4, 6])
    pairs = []
    for _ in range(k):
        index = rng.randrange(nseg)
        r = rng.random()
        if exact:
            den = rng.choice([2, 3, 4, 7, 10, 64, 1000])
            node = Fr(rng.randint(1, den - 1), den)
        else:
            node = rng.uniform(0.02, 0.98)
        if r < 0.12:
            node = rng.choice([0, 1]) if exact else float(rng.choice([0, 1]))
        elif r < 0.22:
            eps = rng.choice([1e-7, 1e-9, 1e-12])
            node = (Fr(eps) if exact else eps) if rng.random() < 0.5 else (1 - Fr(eps) if exact else 1 - eps)
        pairs.append((index, node))
        if rng.random() < 0.25:
            pairs.append((index, node))  # exact duplicate
        if rng.random() < 0.25:
            eps = rng.choice([1e-17, 1e-13, 1e-10, 1e-8, 1e-7, 3e-6, 1e-5, 1e-3, 4e-3, 1e-2])
            near = node + (Fr(eps) if exact else eps)
            if 0 <= near <= 1:
                pairs.append((index, near))
    rng.shuffle(pairs)
    return pairs


def lib_jordan(spec):
    shape = G.build(spec)
    return shape.jordans[0]


def degrees(curve):
    return [len(s) - 1 for s in curve]


def internal_case(ctx):
    """the split calls that boolean operators make on (copies of) their operands, observed by
    a post-condition attached to the real JordanCurve.split"""
    import shapepy
    from shapepy import jordancurve as jc

    from vf import contracts, model as M, opwork as W

    rng = ctx.rng
    sa, sb, info = W.make_pair(rng, curved_prob=0.25, kinds="SSSSCDUV")
    case = Case(ctx, {"A": sa, "B": sb, "mode": "internal"}, "internal-%s" % ("curved" if (G.spec_is_curved(sa) or G.spec_is_curved(sb)) else G.spec_num(sa)))
    mon = contracts.Monitors()
    seen = {"n": 0, "interior": 0}

    def pre(args, kwargs):
        jordan = args[0]
        indexs = list(args[1]) if len(args) > 1 else list(kwargs.get("indexs"))
        nodes = list(args[2]) if len(args) > 2 else list(kwargs.get("nodes"))
        return S.snap_curve(jordan), list(zip(indexs, nodes)), P.curve_is_rational_straight(jordan)

    def post(token, args, kwargs, result, exc):
        if token is None:
            return
        before, pairs, exact = token
        if not all(0 <= O.to_fr(n) <= 1 for _, n in pairs):
            return
        case.count("split:judged")
        case.judged()
        seen["n"] += 1
        if any(P.PARAM_TOL <= O.to_fr(n) <= 1 - P.PARAM_TOL for _, n in pairs):
            seen["interior"] += 1
        for msg, det in P.judge_split(before, pairs, args[0], exact, exc)[:1]:
            case.violate("split (called by an operator): " + msg, pairs=[[i, str(n)] for i, n in pairs], **det)

    mon.attach_path(jc, "JordanCurve", "split", pre=pre, post=post, label="JordanCurve.split")
    try:
        ops = ["or", "and", "sub", "xor"]
        if G.spec_is_curved(sa) or G.spec_is_curved(sb):
            ops = rng.sample(ops, 2)
        for op in ops:
            A, B = G.build(sa), G.build(sb)
            guard = P.BigNumGuard()
            guard.install()
            try:
                P.guarded_call(M.BINARY[op], A, B)
            finally:
                guard.remove()
            if len(case.violations) >= 2:
                break
    finally:
        mon.detach_all()
    for v in mon.take_violations():
        case.unsure("monitor error: %s" % str(v.get("tb", v["message"]))[-300:])
    case.count("clean:judged", 0)
    case.nontrivial = seen["interior"] > 0
    case.spec["split_calls"] = seen["n"]
    return case.finish()


def case(ctx):
    import shapepy

    if ctx.tier == "thorough" and ctx.index == 0:
        from vf.checks.common import suite_case

        return suite_case(ctx, ID)
    rng = ctx.rng
    if ctx.index % 5 == 4:
        return internal_case(ctx)
    spec, stratum = random_curve_spec(rng)
    case = Case(ctx, {"curve": spec}, stratum)
    jordan = lib_jordan(spec)
    original = S.snap_curve(jordan)
    exact = P.curve_is_rational_straight(jordan)
    L = max(1.0, O.diameter(O.curve_bbox(original)))
    tol = 0.0 if exact else 1e-6 * L
    steps = []
    nsteps = rng.choice([1, 1, 2, 3, 6])
    reduced = False
    any_split = False
    mode = "exact" if exact else "float"
    min_len = P.min_piece_length(original)
    case.tags["min_adjacent_ratio"] = 1.0

    longest = max(O.chord_length((seg,)) for seg in original)

    def note_ratio():
        # shortest piece now / longest segment of the clean original: a lower bound of the
        # union parameter clean() can meet while re-uniting pieces
        now = S.snap_curve(jordan)
        case.tags["min_adjacent_ratio"] = min(case.tags["min_adjacent_ratio"], P.min_piece_length(now) / longest)
    for step in range(nsteps):
        before = S.snap_curve(jordan)
        min_len = min(min_len, P.min_piece_length(before))
        what = "split" if (step == 0 or rng.random() < 0.7) else "clean"
        if what == "split":
            pairs = random_pairs(rng, len(before), exact)
            steps.append(["split", [[i, str(n)] for i, n in pairs]])
            indexs = [i for i, _ in pairs]
            nodes = [n for _, n in pairs]
            if mode == "exact" and P.split_mode(before, pairs, True) == "capped":
                mode = "capped"
            _, exc = call(jordan.split, indexs, nodes)
            case.count("split:judged")
            case.judged()
            viol = P.judge_split(before, pairs, jordan, mode == "exact", exc)
            for msg, det in viol[:2]:
                case.violate("split: " + msg, step=step, pairs=[[i, str(n)] for i, n in pairs], **det)
            if exc is not None:
                break
            after = S.snap_curve(jordan)
            interior = [1 for i, n in pairs if P.PARAM_TOL <= O.to_fr(n) <= 1 - P.PARAM_TOL]
            any_split = any_split or bool(interior)
            # degree reduction is allowed; remember it (the clean-restores-segmentation leg
            # only applies when no piece was reduced)
            if P.reduced_pieces(before, after, 1e-6 * L) != 0:
                reduced = True
        else:
            steps.append(["clean"])
            note_ratio()
            _, exc = call(jordan.clean)
            case.count("clean:judged")
            case.judged()
            if exc is not None:
                case.tags["clean_raised"] = True
                case.violate("clean raised %s" % exc_text(exc), step=step)
                break
            after = S.snap_curve(jordan)
            ctol = 0.0 if mode == "exact" else (1e-8 * L if mode == "capped" else tol)
            ok, why = O.same_curve(before, after, ctol)
            if not ok:
                case.tags["clean_class"] = True
                case.tags["curved_union_small_dev"] = bool(any(len(seg) > 2 for seg in original)
                                                           and O.same_curve(before, after, 1e-4 * L)[0])
                case.violate("clean changed the curve: " + why, step=step,
                             before=S.curve_to_json(before), after=S.curve_to_json(after))
            for msg, det in (P.zero_length_violations(after) + P.junction_identity_violations(jordan))[:1]:
                case.violate("clean: " + msg, step=step)
    exact = mode == "exact"
    tol = 0.0 if exact else (1e-8 * L if mode == "capped" else 1e-6 * L)
    min_len = min(min_len, P.min_piece_length(S.snap_curve(jordan)))
    case.tags["min_piece_rel"] = min_len / L
    case.spec["steps"] = steps
    # ---- final clean: idempotent, removes exactly the redundant vertices ---------------
    before = S.snap_curve(jordan)
    note_ratio()
    _, exc = call(jordan.clean)
    case.count("clean:judged")
    case.judged()
    if exc is not None:
        case.tags["clean_raised"] = True
        case.violate("clean raised %s" % exc_text(exc), step="final")
        return case.finish()
    cleaned = S.snap_curve(jordan)
    curved = any(len(seg) > 2 for seg in original)
    # mechanism tag for K-union-tol: a curved curve whose cleaned version is still within
    # 1e-4*L of the curve before clean (the union test accepts deviations up to ~3e-5)
    # ... and an original junction must have disappeared / moved: a leftover split point between
    # two pieces that could be united is another failure (the union was not even tolerant)
    jt_ = 1e-6 * L
    orig_j = [seg[0] for seg in original]
    clean_j = [seg[0] for seg in cleaned]
    junction_moved = any(all(abs(float(a[0] - b[0])) > jt_ or abs(float(a[1] - b[1])) > jt_ for b in clean_j) for a in orig_j)
    case.tags["curved_union_small_dev"] = bool(curved and junction_moved and O.same_curve(before, cleaned, 1e-4 * L)[0])
    ok, why = O.same_curve(before, cleaned, tol)
    if not ok:
        case.tags["clean_class"] = True
        case.violate("clean changed the curve: " + why, step="final",
                     before=S.curve_to_json(before), after=S.curve_to_json(cleaned))
    _, exc = call(jordan.clean)
    again = S.snap_curve(jordan)
    if exc is not None:
        case.violate("second clean raised %s" % exc_text(exc))
    elif again != cleaned:
        case.violate("clean is not idempotent", first=S.curve_to_json(cleaned), second=S.curve_to_json(again))
    for msg, det in (P.zero_length_violations(cleaned) + P.junction_identity_violations(jordan))[:1]:
        case.violate("clean: " + msg, step="final")
    if exact:
        # exactly the redundant (straight-through) vertices are removed
        want = O.polygon_canonical(original)
        got = O.polygon_canonical(cleaned)
        got_raw = O._rotate_min([s[0] for s in cleaned])
        case.count("clean:exact-vertices-judged")
        if got != want:
            case.violate("split+clean changed the polygon")
        elif tuple(got_raw) != tuple(want):
            case.tags["clean_class"] = True
            case.violate("clean left redundant vertices or removed real ones: %d vertices, %d expected" % (len(got_raw), len(want)),
                         got=[S.fmt_point(p) for p in got_raw], want=[S.fmt_point(p) for p in want])
    else:
        dropped = [d for d in degrees(cleaned)]
        if not reduced and sorted(degrees(cleaned)) == sorted(degrees(original)):
            pass
        if not reduced:
            case.count("clean:segmentation-judged")
            if len(cleaned) != len(original):
                # float polygons: nearly collinear split points are removed within tolerance
                case.tags["clean_class"] = True
                case.violate("split then clean does not restore the segmentation: %d segments, originally %d (no piece was degree-reduced)" % (
                    len(cleaned), len(original)), degrees_after=degrees(cleaned), degrees_before=degrees(original))
            else:
                # junctions agree up to rotation within tolerance
                oj = [s[0] for s in original]
                cj = [s[0] for s in cleaned]
                jt = 1e-6 * L
                match = False
                for r in range(len(oj)):
                    if all(abs(float(a[0] - b[0])) <= jt and abs(float(a[1] - b[1])) <= jt
                           for a, b in zip(oj, cj[r:] + cj[:r])):
                        match = True
                        break
                if not match:
                    case.tags["clean_class"] = True
                    case.violate("split then clean moved the junctions")
    # ---- == with the original ---------------------------------------------------------------
    if not reduced:
        fresh = lib_jordan(spec)
        got, exc = call(lambda: jordan == fresh)
        case.count("clean:eq-judged")
        if exc is not None:
            case.violate("(split+clean curve) == original raised %s" % exc_text(exc))
        elif got is not True:
            case.tags["clean_class"] = True
            case.violate("split followed by clean gives a curve that is not == to the original (no piece was degree-reduced)")
    case.nontrivial = any_split
    return case.finish()
