"""C19 -- directly constructed composite shapes equal the ones operators build.

Reference-model monitor on the public constructors: ConnectedShape(list) must denote the
intersection and DisjointShape(list) the union of the exact leaf regions, for every
permutation of the list -- membership of certified points, exact moments, complement, the
canonical order of `subshapes`, == with the shape the operators build from the same parts,
DisjointShape([x]) as an unshared copy, and the Empty cases.
"""
from __future__ import annotations

import itertools
from fractions import Fraction as Fr

from vf import gen as G, model as M, oracle as O, snapshot as S
from vf.checks.common import Case, call, exc_text

ID = "C19"
TECHNIQUE = "runtime monitoring: reference-model monitor on composite constructors over all permutations of the member list"
LEVEL = "exploration"
RULE = ("valid lists generated nested / pairwise disjoint by construction and re-validated exactly for polygons: outer region "
        "(or none, unbounded) with 1-3 holes for ConnectedShape; 2-3 components, some with holes, for DisjointShape; polygons "
        "int/Fraction/float and curved members; every permutation (<= 6) of each list; plus DisjointShape([x]), [], [Empty..]; "
        "non-trivial = a list of >= 2 members built in >= 2 permutations and compared with the model; distinct = distinct specs")
ASSUMPTIONS = [
    "leaf regions are the exact snapshots of the members built one by one; the model is their intersection / union",
    "points certified >= max(1e-5, 1e-5*L) (2e-6 for rational polygons) from every leaf boundary; moments exact for rational "
    "polygons, 1e-9 relative otherwise",
    "== with the operator-built shape is judged only when the oracle confirms that the operators produced the same region",
]
DECIDING_MONITORS = ("composite:points-judged", "composite:permutations-judged")
CASE_TIMEOUT = 300
SHARD_SIZE = 8


def budget(tier):
    return 160 if tier == "quick" else 1200


def canonical_order_key(shape):
    """order of subshapes as the library stores them, as a tuple of rounded area signatures"""
    reg = S.snap_shape(shape)
    if reg[0] not in ("connected", "disjoint"):
        return (reg[0],)
    keys = []
    for sub in reg[1]:
        curves = O.region_curves(sub)
        keys.append(tuple(sorted(round(float(O.signed_area(c)), 9) for c in curves)))
    return tuple(keys)


def case(ctx):
    import shapepy

    rng = ctx.rng
    mode = rng.choice(["connected", "connected", "unbounded-connected", "disjoint", "disjoint", "nested-rings", "special"])
    curved = rng.random() < 0.15
    num = None if curved else rng.choice(["int", "frac", "float"])
    if mode == "special":
        return special_case(ctx)
    if mode == "connected":
        spec, _ = G.random_connected(rng, num, curved, (rng.randint(-9, 9), rng.randint(-9, 9)), 10.0, nholes=rng.randint(1, 3))
    elif mode == "nested-rings":
        spec, _ = G.random_nested_rings(rng, num, curved, (0, 0), 10.0)
    elif mode == "unbounded-connected":
        spec, _ = G.random_connected(rng, num, curved, (0, 0), 10.0, nholes=rng.randint(2, 3), unbounded=True)
    else:
        spec, _ = G.random_disjoint(rng, num, curved, (0, 0), 10.0, ncomp=rng.randint(2, 3))
    if not G.validate_composite_exact(spec):
        case = Case(ctx, {"spec": spec}, "rejected")
        case.unsure("generated list is not valid")
        return case.finish()
    case = Case(ctx, {"spec": spec}, "%s-%s" % (mode, "curved" if G.spec_is_curved(spec) else G.spec_num(spec)))
    parts = spec["parts"]
    ctor = shapepy.ConnectedShape if spec["t"] == "connected" else shapepy.DisjointShape
    leaves = [S.snap_shape(G.build(p)) for p in parts]
    combine = "and" if spec["t"] == "connected" else "or"
    expr = M.leaf(leaves[0])
    for r in leaves[1:]:
        expr = (combine, expr, M.leaf(r))
    curves = [c for r in leaves for c in O.region_curves(r)]
    exact = all(O.is_polygonal(c) for c in curves) and G.spec_num(spec) in ("int", "frac")
    L = max(O.diameter(O.curves_bbox(curves)), 1e-9)
    delta = Fr(2, 10 ** 6) if exact else Fr(max(1e-5, 1e-5 * L))
    perms = list(itertools.permutations(range(len(parts))))
    rng.shuffle(perms)
    perms = [tuple(range(len(parts)))] + [p for p in perms if p != tuple(range(len(parts)))][:5]
    pts, _ = M.sample_points(rng, expr, 24, delta, exact_grid=(8 if exact else None),
                             dists=[Fr(1, 10 ** 4), Fr(1, 100), Fr(1, 4)] if exact else None)
    wants = []
    for p in pts:
        try:
            wants.append((p, M.contains(expr, p, delta)))
        except O.TooClose:
            pass
    built = []
    order_keys = []
    for perm in perms:
        members = [G.build(parts[i]) for i in perm]
        shape, exc = call(ctor, members)
        case.count("composite:permutations-judged")
        case.judged()
        if exc is not None:
            case.violate("%s(%s) raised %s for a valid list" % (ctor.__name__, list(perm), exc_text(exc)), perm=list(perm))
            continue
        if type(shape) is not ctor:
            case.violate("%s(list of %d) returns a %s" % (ctor.__name__, len(parts), type(shape).__name__), perm=list(perm))
            continue
        built.append((perm, shape))
        order_keys.append(canonical_order_key(shape))
        for p, want in wants:
            lp = p if exact else (float(p[0]), float(p[1]))
            got, exc = call(lambda: lp in shape)
            case.count("composite:points-judged")
            if exc is not None or bool(got) != want:
                case.violate("%s(permutation %s): point %s -> %r, the %s of the members gives %r" % (
                    ctor.__name__, list(perm), S.fmt_point((float(p[0]), float(p[1]))), exc_text(exc) if exc else got,
                    "intersection" if combine == "and" else "union", want), perm=list(perm))
                break
        # moments: sum over the members' boundaries
        for (a, b) in ((0, 0), (1, 0), (0, 1), (1, 1), (2, 0)):
            want_m = sum((O.region_moment(r, a, b) for r in leaves), Fr(0))
            if not all(O.is_polygonal(c) for c in curves) and (a, b) != (0, 0):
                # curved: the library's quadrature is not exact for higher moments (C04); the
                # composite must report what its members report
                vals = [shapepy.IntegrateShape.polynomial(G.build(parts[i]), a, b) for i in range(len(parts))]
                want_m = Fr(float(sum(vals)))
            got, exc = call(shapepy.IntegrateShape.polynomial, shape, a, b)
            case.count("composite:moments-judged")
            if exc is not None:
                case.violate("moment (%d,%d) of the composite raised %s" % (a, b, exc_text(exc)))
                break
            scale = sum(abs(float(O.region_moment(r, a, b))) for r in leaves) + 1e-300
            if (exact and Fr(got) != want_m and max(p_[0].denominator for c in curves for s_ in c for p_ in s_) < 10 ** 6) or \
                    abs(float(got) - float(want_m)) > 1e-9 * scale:
                case.violate("moment (%d,%d) of %s(permutation %s) is %r, the members give %r" % (
                    a, b, ctor.__name__, list(perm), float(got), float(want_m)), perm=list(perm))
                break
        got, exc = call(float, shape)
        want_area = sum((O.region_moment(r, 0, 0) for r in leaves), Fr(0))
        if exc is not None or abs(float(got) - float(want_area)) > 1e-9 * (sum(abs(float(O.region_moment(r, 0, 0))) for r in leaves) + 1e-300):
            case.violate("float(%s(permutation %s)) = %r, the members give %r" % (ctor.__name__, list(perm), exc_text(exc) if exc else got, float(want_area)))
        # complement
        comp, exc = call(lambda: ~shape)
        if exc is not None:
            case.violate("~%s(...) raised %s" % (ctor.__name__, exc_text(exc)))
        else:
            for p, want in wants[:10]:
                lp = p if exact else (float(p[0]), float(p[1]))
                got, exc = call(lambda: lp in comp)
                case.count("composite:points-judged")
                if exc is not None or bool(got) == want:
                    case.violate("complement of %s(permutation %s): point %s -> %r, expected %r" % (
                        ctor.__name__, list(perm), S.fmt_point((float(p[0]), float(p[1]))), exc_text(exc) if exc else got, not want))
                    break
        if len(case.violations) >= 2:
            break
    if len(set(order_keys)) > 1:
        case.violate("the order of `subshapes` depends on the order of the list: %s" % (sorted(set(order_keys))[:2],))
    # == under permutation and with the operator-built shape
    if len(built) >= 2 and not case.violations:
        (p0, s0) = built[0]
        for perm, sh in built[1:3]:
            for a, b, na, nb in ((s0, sh, p0, perm), (sh, s0, perm, p0)):
                got, exc = call(lambda: a == b)
                case.count("composite:eq-judged")
                if exc is not None or got is not True:
                    case.violate("%s(permutation %s) == %s(permutation %s) is %r" % (
                        ctor.__name__, list(na), ctor.__name__, list(nb), exc_text(exc) if exc else got))
                    break
        members = [G.build(p) for p in parts]
        opres, exc = call(lambda: _fold(members, combine))
        if exc is None and hasattr(opres, "jordans"):
            same, _ = O.same_region(S.snap_shape(s0), S.snap_shape(opres), 0.0 if exact else 1e-9 * max(1.0, L))
            if not same and exact:
                same, _ = O.same_region(S.snap_shape(s0), S.snap_shape(opres), 1e-9 * max(1.0, L))
            if same:
                got, exc = call(lambda: s0 == opres)
                case.count("composite:eq-operators-judged")
                if exc is not None or got is not True:
                    case.violate("%s(list) == (members combined with %s) is %r although both denote the same region" % (
                        ctor.__name__, "&" if combine == "and" else "|", exc_text(exc) if exc else got))
            else:
                case.count("composite:operators-gave-another-region (C01's business)")
    case.nontrivial = len(built) >= 2 and len(wants) >= 8
    return case.finish()


def _fold(members, combine):
    res = members[0]
    for m in members[1:]:
        res = (res & m) if combine == "and" else (res | m)
    return res


def special_case(ctx):
    import shapepy
    from vf.checks.c08 import graph_ids

    rng = ctx.rng
    case = Case(ctx, {"mode": "special"}, "special")
    E = shapepy.EmptyShape()
    for name, arg in (("DisjointShape([])", []), ("DisjointShape([Empty])", [E]), ("DisjointShape([Empty, Empty])", [E, E])):
        res, exc = call(shapepy.DisjointShape, arg)
        case.count("composite:permutations-judged")
        case.judged()
        if exc is not None or res is not E:
            case.violate("%s gives %s instead of the Empty singleton" % (name, exc_text(exc) if exc else type(res).__name__))
    for _ in range(3):
        kind = rng.choice("SCUV")
        spec, _ = G.random_shape(rng, kind, None, rng.random() < 0.2, (0, 0), 10.0)
        x = G.build(spec)
        before = S.snap_shape(x)
        for arg, name in (([x], "DisjointShape([x])"), ([E, x, E], "DisjointShape([Empty, x, Empty])")):
            res, exc = call(shapepy.DisjointShape, arg)
            case.count("composite:permutations-judged")
            if exc is not None:
                case.violate("%s raised %s" % (name, exc_text(exc)))
                continue
            if res is x:
                case.violate("%s returns x itself, not a copy" % name)
                continue
            if S.snap_shape(res) != before:
                ok, why = S.same_denotation(before, S.snap_shape(res), 1e-12)
                if not ok:
                    case.violate("%s is not a copy of x: %s" % (name, why))
                    continue
            a, _k1 = graph_ids(res)
            b, _k2 = graph_ids(x)
            if set(a) & set(b):
                case.violate("%s shares %d objects with x" % (name, len(set(a) & set(b))))
            eq, exc = call(lambda: res == x)
            if exc is not None or eq is not True:
                case.violate("%s == x is %r" % (name, exc_text(exc) if exc else eq))
        case.spec.setdefault("shapes", []).append(spec)
    case.nontrivial = True
    return case.finish()
