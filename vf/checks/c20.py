"""C20 -- plotting draws exactly the boundary of the shape.

State hook on the matplotlib Axes after ShapePloter.plot(S): the patches added to the axes
are parsed back into closed chains of Bezier segments and compared, piece by piece, with
the exact snapshot of the shape (one filled path per connected component, one outline per
boundary, fill vs hole-in-background by the sign of the component, Empty/Whole, shape
unchanged).
"""
from __future__ import annotations

from fractions import Fraction as Fr

from vf import gen as G, oracle as O, snapshot as S
from vf.checks.common import Case, call, exc_text

ID = "C20"
TECHNIQUE = "runtime monitoring: state hook on the matplotlib Axes after plotting, paths parsed back and compared with the exact snapshot"
LEVEL = "exploration"
RULE = ("random shapes of every kind (simple, connected, disjoint, unbounded, Empty, Whole) with segments of degree "
        "1, 2, 3 and mixed chains, one-segment loops, boundaries with redundant nodes left by split, all numeric kinds, plotted on a fresh Agg figure (one axes, or the first of two axes); non-trivial = a shape with at least "
        "one boundary whose patches were parsed and compared; distinct = distinct shape specs")
ASSUMPTIONS = [
    "matplotlib Path semantics: MOVETO / LINETO / CURVE3 x2 / CURVE4 x3 / CLOSEPOLY (whose vertex is ignored)",
    "a path may start at any segment of the boundary (cyclic rotation accepted); outline vertices within 1.5e-6 "
    "(the library rounds them to 1e-6), fill vertices within 1e-9 relative",
    "colours are not compared, only filled vs unfilled and white-on-coloured-background for unbounded components",
]
DECIDING_MONITORS = ("plot:judged",)
CASE_TIMEOUT = 120
SHARD_SIZE = 10
USE_REACH = True


def budget(tier):
    return 320 if tier == "quick" else 4000


def parse_path(path):
    """matplotlib Path -> list of closed chains; each chain a list of control-point tuples"""
    from matplotlib.path import Path

    verts = [tuple(map(float, v)) for v in path.vertices]
    codes = list(path.codes) if path.codes is not None else None
    if codes is None:
        raise ValueError("path without codes")
    chains = []
    cur = None
    start = None
    segs = None
    closed = True
    i = 0
    n = len(verts)
    while i < n:
        code = codes[i]
        if code == Path.MOVETO:
            if segs is not None:
                chains.append((segs, closed))
            start = cur = verts[i]
            segs = []
            closed = False
            i += 1
        elif code == Path.LINETO:
            segs.append((cur, verts[i]))
            cur = verts[i]
            i += 1
        elif code == Path.CURVE3:
            if i + 1 >= n or codes[i + 1] != Path.CURVE3:
                raise ValueError("truncated CURVE3")
            segs.append((cur, verts[i], verts[i + 1]))
            cur = verts[i + 1]
            i += 2
        elif code == Path.CURVE4:
            if i + 2 >= n or codes[i + 1] != Path.CURVE4 or codes[i + 2] != Path.CURVE4:
                raise ValueError("truncated CURVE4")
            segs.append((cur, verts[i], verts[i + 1], verts[i + 2]))
            cur = verts[i + 2]
            i += 3
        elif code == Path.CLOSEPOLY:
            if cur != start:
                segs.append((cur, start))
                cur = start
            closed = True
            i += 1
        else:
            raise ValueError("unknown path code %r" % (code,))
    if segs is not None:
        chains.append((segs, closed))
    return chains


def chain_matches(chain, curve, tol):
    """chain (float segments) equals the exact curve up to a cyclic rotation; zero-length
    closing pieces introduced by CLOSEPOLY are ignored"""
    chain = [s for s in chain if not all(p == s[0] for p in s)]
    if len(chain) != len(curve):
        return False, "%d pieces drawn, boundary has %d segments (degrees drawn %s, boundary %s)" % (
            len(chain), len(curve), [len(s) - 1 for s in chain], [len(s) - 1 for s in curve])
    n = len(curve)
    fcurve = [tuple((float(p[0]), float(p[1])) for p in seg) for seg in curve]
    for r in range(n):
        ok = True
        for k in range(n):
            a, b = chain[k], fcurve[(k + r) % n]
            if len(a) != len(b):
                ok = False
                break
            for p, q in zip(a, b):
                t = tol * max(1.0, abs(q[0]), abs(q[1]))
                if abs(p[0] - q[0]) > t or abs(p[1] - q[1]) > t:
                    ok = False
                    break
            if not ok:
                break
        if ok:
            return True, "rotation %d" % r
    return False, "drawn pieces do not retrace the boundary (in order, with the same control points)"


def case(ctx):
    """first plot of a fresh shape; then (history) an in-place change of the same object and a
    second plot on a fresh figure, judged in the same way"""
    rec = plot_case(ctx, None)
    return rec


def plot_case(ctx, _unused):
    import matplotlib

    matplotlib.use("Agg")
    from matplotlib.figure import Figure
    from matplotlib.colors import to_rgba
    import shapepy

    rng = ctx.rng
    kind = rng.choice("SSUCCDDMMNVEW")
    curved = rng.random() < 0.6
    spec, info = G.random_shape(rng, kind, None, curved, (rng.uniform(-5, 5), rng.uniform(-5, 5)) if rng.random() < 0.5 else (0, 0),
                                rng.choice([1.0, 10.0, 50.0]))
    # make sure cubic and mixed chains appear often
    if kind in "SU" and curved and rng.random() < 0.6:
        spec, info = G.random_blob(rng, (0, 0), 10.0, degree=rng.choice([2, 3, 3]), cw=(kind == "U"), mixed=rng.random() < 0.4)
    if kind in "SU" and curved and rng.random() < 0.1:
        spec, info = G.random_teardrop(rng, (0, 0), 10.0, cw=(kind == "U"))
    case = Case(ctx, {"shape": spec}, "%s-%s" % (kind, "curved" if G.spec_is_curved(spec) else "straight"))
    shape = G.build(spec)
    if hasattr(shape, "jordans") and rng.random() < 0.35:
        # boundaries with removable nodes (left by the library's own split): the plot retraces the
        # boundary as it is stored, piece by piece
        from vf.checks.c07 import split_variant

        redundant, exc = call(split_variant, spec, rng)
        if exc is None and redundant is not None:
            shape = redundant
            case.spec["redundant_nodes"] = True
            case.count("plot:boundaries-with-redundant-nodes")
    judge_plot(case, shape, multi=rng.random() < 0.35)
    # history: change the same object in place, plot again on a fresh figure
    if hasattr(shape, "jordans") and not case.violations:
        step = rng.choice(["invert", "scale", "move", "rotate"])
        try:
            if step == "invert":
                if hasattr(shape, "invert"):
                    shape.invert()
                else:
                    step = "scale"
            if step == "scale":
                shape.scale(2, 3)
            elif step == "move":
                shape.move(5, -3)
            elif step == "rotate":
                shape.rotate(0.5)
        except Exception:
            step = None
        if step:
            case.spec["then"] = step
            case.count("plot:replot-after-%s" % step)
            judge_plot(case, shape, multi=rng.random() < 0.35)
    return case.finish()


def judge_plot(case, shape, white_default=None, multi=False):
    import matplotlib

    matplotlib.use("Agg")
    from matplotlib.figure import Figure
    from matplotlib.colors import to_rgba
    import shapepy

    region = S.snap_shape(shape)
    fig = Figure()
    other = None
    if multi:
        # the plotter is bound to one axes of a figure with two; the other one was added last and is
        # the figure's current axes
        ax = fig.add_subplot(121)
        other = fig.add_subplot(122)
        other_face = other.get_facecolor()
        case.count("plot:bound-to-non-current-axes")
    else:
        ax = fig.add_subplot(111)
    default_face = ax.get_facecolor()
    plotter = shapepy.ShapePloter(fig=fig, ax=ax)
    _, exc = call(plotter.plot, shape)
    if other is not None and exc is None and (other.patches or other.lines or other.collections or other.get_facecolor() != other_face):
        case.violate("the plot went to another axes of the figure (%d patches there), not to the axes the plotter was given" % len(other.patches))
    case.count("plot:judged")
    case.judged()
    if exc is not None:
        case.violate("plot raised %s" % exc_text(exc))
        return
    after = S.snap_shape(shape)
    if after != region:
        case.violate("plotting modified the shape", before=S.region_to_json(region), after=S.region_to_json(after))
    patches = list(ax.patches)
    white = to_rgba("white")
    if region[0] == "empty":
        if patches or ax.get_facecolor() != default_face or ax.collections or ax.lines:
            case.violate("Empty draws something: %d patches, background %s" % (len(patches), ax.get_facecolor()))
        return
    if region[0] == "whole":
        if patches:
            case.violate("Whole adds %d patches" % len(patches))
        if ax.get_facecolor() == default_face:
            case.violate("Whole does not colour the background")
        return
    case.nontrivial = True
    comps = [region] if region[0] != "disjoint" else list(region[1])
    fills = []
    outlines = []
    for patch in patches:
        face = patch.get_facecolor()
        filled = patch.get_fill() and face[3] > 0
        try:
            chains = parse_path(patch.get_path())
        except ValueError as err:
            case.violate("a patch has a malformed path: %s" % err)
            return
        (fills if filled else outlines).append((patch, chains))
    all_curves = O.region_curves(region)
    if len(fills) != len(comps):
        case.violate("%d filled paths for %d connected components" % (len(fills), len(comps)))
    if len(outlines) != len(all_curves):
        case.violate("%d outlines for %d boundary curves" % (len(outlines), len(all_curves)))
    # ---- fills: one per component, all its boundaries, bounded filled / unbounded as a hole --
    unmatched = list(fills)
    for comp in comps:
        curves = O.region_curves(comp)
        area = sum((O.signed_area(c) for c in curves), Fr(0))
        found = None
        for item in unmatched:
            patch, chains = item
            if len(chains) != len(curves):
                continue
            rest = list(curves)
            ok = True
            for segs, closed in chains:
                hit = None
                for j, c in enumerate(rest):
                    m, _ = chain_matches(segs, c, 1e-9)
                    if m:
                        hit = j
                        break
                if hit is None or not closed:
                    ok = False
                    break
                rest.pop(hit)
            if ok:
                found = item
                break
        case.count("plot:components-judged")
        if found is None:
            why = ""
            if unmatched:
                _, chains = unmatched[0]
                if len(chains) == len(curves):
                    why = "; ".join(chain_matches(segs, c, 1e-9)[1] for (segs, _), c in zip(chains, curves))
                else:
                    why = "%d sub-paths for %d boundaries" % (len(chains), len(curves))
            case.violate("no filled path retraces the component with %d boundaries (degrees %s): %s" % (
                len(curves), [[len(s) - 1 for s in c] for c in curves], why))
            continue
        unmatched.remove(found)
        patch = found[0]
        face = patch.get_facecolor()
        if area > 0:
            if tuple(face[:3]) == tuple(white[:3]) and face[3] == 1:
                case.violate("a bounded component is drawn as a white hole")
        else:
            if tuple(face[:3]) != tuple(white[:3]):
                case.violate("an unbounded component is filled with colour %s instead of being a hole" % (face,))
            if ax.get_facecolor() == default_face:
                case.violate("an unbounded component is drawn without a filled background")
    # ---- outlines: one per boundary ------------------------------------------------------------
    rest = list(outlines)
    for c in all_curves:
        case.count("plot:outlines-judged")
        hit = None
        why = "no outline"
        for item in rest:
            patch, chains = item
            if len(chains) != 1:
                continue
            m, why_ = chain_matches(chains[0][0], c, 1.5e-6)
            if m and chains[0][1]:
                hit = item
                break
            why = why_
        if hit is None:
            case.violate("no outline retraces a boundary with segment degrees %s: %s" % ([len(s) - 1 for s in c], why))
        else:
            rest.remove(hit)
    return
