"""C07 -- == is region equality and an equivalence relation.

Truth by construction: from one generated region the harness derives representation
variants that must compare equal (cyclic rotation of the vertex/segment list, redundant
vertices inserted by split, int/Fraction/float of the same coordinates, permuted holes and
components, another construction history) and perturbed variants that must compare unequal
(a vertex moved, orientation flipped, a hole moved, a component dropped, translated copy,
another kind).  Every ordered pair is compared with the library's == and != and the
answers are checked against the construction (the oracle re-validates each variant).
"""
from __future__ import annotations

import copy as _copy
from fractions import Fraction as Fr

from vf import gen as G, oracle as O, props as P, snapshot as S
from vf.checks.common import Case, call, exc_text

ID = "C07"
TECHNIQUE = "runtime monitoring: truth-by-construction variants compared with == / !=, oracle re-validation of every variant"
LEVEL = "exploration"
RULE = ("random regions of all kinds (polygons int/Fraction/float, circles, Bezier blobs of degree 2-3, mixed-degree "
        "chains, two-segment lenses and half disks, connected, disjoint, unbounded) x 4-7 equal variants and 3-5 unequal variants; all ordered pairs compared "
        "with == and != (shapes with shapes, closed curves with closed curves); non-trivial = a region with >= 2 equal "
        "variants and >= 1 unequal variant judged; distinct = distinct case specs")
ASSUMPTIONS = [
    "equal variants denote exactly the same region (oracle: same_region exactly for rational polygons, within 1e-9*L for "
    "float split points); unequal variants differ by at least 1e-3 of the diameter, far above the library's 1e-6/1e-9 tolerances",
    "split parameters are taken in [0.1, 0.9]; a variant whose pieces were degree-reduced is dropped (the property exempts it)",
    "curved boundaries with Fraction control points are not generated (point-on-curve Newton iteration in exact arithmetic, F16)",
]
DECIDING_MONITORS = ("eq:pairs-judged",)
CASE_TIMEOUT = 150
SHARD_SIZE = 6


def budget(tier):
    return 112 if tier == "quick" else 600


# ----------------------------------------------------------------------------------
# spec transformations
# ----------------------------------------------------------------------------------

def _add(s, d, num):
    v = G.exact(s) + Fr(d)
    if num == "float":
        return repr(float(v))
    if num == "int":
        return str(int(v)) if v.denominator == 1 else str(v)
    return str(v)


def translate_spec(spec, dx, dy):
    spec = _copy.deepcopy(spec)
    t = spec["t"]
    if t == "poly":
        spec["v"] = [[_add(x, dx, spec["num"]), _add(y, dy, spec["num"])] for x, y in spec["v"]]
    elif t == "ctrl":
        spec["segs"] = [[[_add(x, dx, spec["num"]), _add(y, dy, spec["num"])] for x, y in seg] for seg in spec["segs"]]
    elif t == "circle":
        spec["c"] = [repr(float(G.exact(spec["c"][0]) + Fr(dx))), repr(float(G.exact(spec["c"][1]) + Fr(dy)))]
    elif t in ("connected", "disjoint"):
        spec["parts"] = [translate_spec(s, dx, dy) for s in spec["parts"]]
    return spec


def rotate_listing(spec, rng):
    spec = _copy.deepcopy(spec)
    t = spec["t"]
    if t == "poly":
        k = rng.randrange(1, len(spec["v"]))
        spec["v"] = spec["v"][k:] + spec["v"][:k]
    elif t == "ctrl":
        k = rng.randrange(1, len(spec["segs"]))
        spec["segs"] = spec["segs"][k:] + spec["segs"][:k]
    elif t in ("connected", "disjoint"):
        spec["parts"] = [rotate_listing(s, rng) for s in spec["parts"]]
    return spec


def renumber(spec, num):
    """same coordinates in another numeric kind (only when exactly representable)"""
    spec = _copy.deepcopy(spec)
    t = spec["t"]
    if t == "poly":
        vals = [G.exact(c) for v in spec["v"] for c in v]
        if num == "int" and any(v.denominator != 1 for v in vals):
            return None
        if num == "float" and any(Fr(float(v)) != v for v in vals):
            return None
        if num == "frac" and any(v.denominator > 10 ** 6 for v in vals):
            return None  # exact arithmetic on 2**52 denominators inside pynurbs takes minutes
        spec["num"] = num
        if num == "float":
            spec["v"] = [[repr(float(G.exact(x))), repr(float(G.exact(y)))] for x, y in spec["v"]]
        else:
            spec["v"] = [[str(G.exact(x)), str(G.exact(y))] for x, y in spec["v"]]
        return spec
    if t in ("connected", "disjoint"):
        parts = [renumber(s, num) for s in spec["parts"]]
        if any(p is None for p in parts):
            return None
        spec["parts"] = parts
        return spec
    return None


def permute_parts(spec, rng):
    spec = _copy.deepcopy(spec)
    if spec["t"] in ("connected", "disjoint"):
        parts = [permute_parts(s, rng) for s in spec["parts"]]
        rng.shuffle(parts)
        spec["parts"] = parts
    return spec


def perturb_vertex(spec, rng, amount):
    spec = _copy.deepcopy(spec)
    t = spec["t"]
    if t == "poly":
        k = rng.randrange(len(spec["v"]))
        d = amount if spec["num"] != "int" else max(1, round(amount))
        spec["v"][k] = [_add(spec["v"][k][0], d, spec["num"]), _add(spec["v"][k][1], d, spec["num"])]
        return spec
    if t == "ctrl":
        k = rng.randrange(len(spec["segs"]))
        seg = spec["segs"][k]
        prev = spec["segs"][k - 1]
        new = [_add(seg[0][0], amount, spec["num"]), _add(seg[0][1], amount, spec["num"])]
        seg[0] = new
        prev[-1] = list(new)
        return spec
    if t == "circle":
        spec["r"] = repr(float(G.exact(spec["r"])) * (1 + 2e-3))
        return spec
    if t in ("connected", "disjoint"):
        k = rng.randrange(len(spec["parts"]))
        spec["parts"][k] = perturb_vertex(spec["parts"][k], rng, amount)
        return spec
    return None


def flip(spec):
    spec = _copy.deepcopy(spec)
    t = spec["t"]
    if t == "poly":
        spec["v"] = [spec["v"][0]] + spec["v"][:0:-1]
    elif t == "ctrl":
        spec["segs"] = [list(reversed(s)) for s in reversed(spec["segs"])]
    elif t == "circle":
        spec["cw"] = not spec.get("cw", False)
    else:
        return None
    return spec


def split_variant(spec, rng):
    """build, then insert redundant vertices with the library's own split; returns the
    object or None when a piece was degree-reduced"""
    shape = G.build(spec)
    for jordan in shape.jordans:
        before = S.snap_curve(jordan)
        n = len(before)
        k = rng.randint(1, 3)
        idx = [rng.randrange(n) for _ in range(k)]
        exact = P.curve_is_rational_straight(jordan)
        if exact:
            nodes = [Fr(rng.randint(1, 9), 10) for _ in range(k)]
        else:
            nodes = [rng.uniform(0.1, 0.9) for _ in range(k)]
        jordan.split(idx, nodes)
        after = S.snap_curve(jordan)
        L = max(1.0, O.diameter(O.curve_bbox(before)))
        if P.reduced_pieces(before, after, 1e-6 * L) != 0:
            return None
        ok, _ = O.same_curve(before, after, 0.0 if exact else 1e-9 * L)
        if not ok:
            return None
    return shape


def operator_variant(spec):
    """the same region through operators instead of constructors"""
    import shapepy

    t = spec["t"]
    if t == "connected":
        parts = [G.build(p) for p in spec["parts"]]
        result = parts[0]
        for p in parts[1:]:
            result = result & p
        return result
    if t == "disjoint":
        parts = [G.build(p) for p in spec["parts"]]
        result = parts[0]
        for p in parts[1:]:
            result = result | p
        return result
    if t in ("poly", "ctrl", "circle"):
        return ~(~G.build(spec))
    return None


# ----------------------------------------------------------------------------------


def cleaned_alike(a, b, L):
    """do the library's own clean() copies of all boundaries of a and b have the same
    segmentation (same junctions up to a rotation, within 1e-7*L)?"""
    try:
        ja = [j.__copy__().clean() for j in a.jordans]
        jb = [j.__copy__().clean() for j in b.jordans]
    except Exception:
        return False
    if len(ja) != len(jb):
        return False
    tol = 1e-7 * max(1.0, L)
    rest = [S.snap_curve(j) for j in jb]
    for j in ja:
        ca = S.snap_curve(j)
        found = None
        for k, cb in enumerate(rest):
            if len(ca) != len(cb):
                continue
            pa = [seg[0] for seg in ca]
            pb = [seg[0] for seg in cb]
            n = len(pa)
            for r in range(n):
                if all(abs(float(x[0] - y[0])) <= tol and abs(float(x[1] - y[1])) <= tol for x, y in zip(pa, pb[r:] + pb[:r])):
                    found = k
                    break
            if found is not None:
                break
        if found is None:
            return False
        rest.pop(found)
    return True


def case(ctx):
    import shapepy

    rng = ctx.rng
    kind = rng.choice("SSSSUCCDDV")
    curved = rng.random() < 0.25
    num = None if curved else rng.choice(["int", "frac", "float"])
    size = rng.choice([1.0, 10.0, 10.0, 100.0])
    center = (rng.randint(-20, 20), rng.randint(-20, 20))
    spec, info = G.random_shape(rng, kind, num, curved, center, size)
    if kind in "SU" and curved and rng.random() < 0.6:
        spec, info = G.random_blob(rng, center, size, degree=rng.choice([2, 3]), cw=(kind == "U"), mixed=rng.random() < 0.5)
        if rng.random() < 0.5:
            # few, strongly curved segments (each turns by 120 degrees)
            segs = G.blob_segments(rng, rng.choice([3, 4]), rng.choice([2, 2, 3]), center, 0.8 * size, size, False, bulge=2.2)
            spec = G.ctrl_spec(segs, "float", kind == "U")
    if kind in "SU" and curved and rng.random() < 0.4:
        # closed curves of exactly two segments (half disks and lenses): reversing the list of a
        # two-segment curve gives the same pair of segments, only their direction tells them apart
        spec, info = G.random_lens(rng, center, size, cw=(kind == "U"))
    case = Case(ctx, {"shape": spec}, "%s-%s" % (kind, "curved" if G.spec_is_curved(spec) else G.spec_num(spec)))
    base = G.build(spec)
    base_reg = S.snap_shape(base)
    curves = O.region_curves(base_reg)
    L = max(O.diameter(O.curves_bbox(curves)), 1e-9)
    exact = S.is_exact_region(base_reg) and G.spec_num(spec) in ("int", "frac")
    tol = 0.0 if exact else 1e-9 * max(1.0, L)
    # ---- variants -------------------------------------------------------------------
    equal = [("base", base)]
    unequal = []

    def add_equal(name, make):
        obj, exc = call(make)
        if exc is not None or obj is None:
            case.count("variant:%s-unavailable" % name)
            return
        reg = S.snap_shape(obj)
        ok, why = O.same_region(base_reg, reg, tol if tol else 0.0)
        if not ok and exact:
            ok, why = O.same_region(base_reg, reg, 1e-9 * max(1.0, L))
        if not ok:
            # the construction did not give the same region: not this property's business
            case.count("variant:%s-not-same-region" % name)
            return
        equal.append((name, obj))

    def add_unequal(name, make):
        s2 = make()
        if s2 is None:
            return
        obj, exc = call(G.build, s2) if isinstance(s2, dict) else (s2, None)
        if exc is not None or obj is None:
            case.count("variant:%s-unavailable" % name)
            return
        reg = S.snap_shape(obj)
        # must be a valid, genuinely different region
        for c in O.region_curves(reg):
            if O.is_polygonal(c) and not O.polygon_is_simple(c):
                case.count("variant:%s-invalid" % name)
                return
        ok, _ = O.same_region(base_reg, reg, (1e-8 if name.startswith("vertex-moved-") else 1e-4 * max(1.0, L)) if not exact else 0.0)
        if ok:
            case.count("variant:%s-not-different" % name)
            return
        unequal.append((name, obj))

    add_equal("copy", lambda: _copy.deepcopy(base))
    add_equal("rotated-listing", lambda: G.build(rotate_listing(spec, rng)))
    add_equal("rotated-listing-2", lambda: G.build(rotate_listing(spec, rng)))
    add_equal("split", lambda: split_variant(spec, rng))
    add_equal("split-rotated", lambda: split_variant(rotate_listing(spec, rng), rng))
    if spec["t"] in ("connected", "disjoint"):
        add_equal("permuted", lambda: G.build(permute_parts(spec, rng)))
        add_equal("operators", lambda: operator_variant(spec))
    else:
        add_equal("double-invert", lambda: operator_variant(spec))
    for other in ("int", "frac", "float"):
        if not G.spec_is_curved(spec) and other != G.spec_num(spec):
            s2 = renumber(spec, other)
            if s2 is not None:
                add_equal("as-" + other, lambda s2=s2: G.build(s2))
    amount = L * rng.choice([1e-3, 1e-2, 0.1])
    add_unequal("vertex-moved", lambda: perturb_vertex(spec, rng, amount))
    if G.spec_num(spec) != "int":
        # far below the drawing's size but above the library's resolution (1e-9 point equality,
        # 1e-6 point-on-curve): still another region
        tiny = rng.choice([1e-5, 1e-7])
        add_unequal("vertex-moved-%g" % tiny, lambda: perturb_vertex(spec, rng, tiny))
    add_unequal("translated", lambda: translate_spec(spec, round(L) + 1 if G.spec_num(spec) == "int" else L * rng.choice([1e-3, 0.5, 3.0]), 0))
    if spec["t"] in ("poly", "ctrl", "circle"):
        add_unequal("flipped", lambda: flip(spec))
        add_unequal("other-kind", lambda: G.build(spec) | G.build(translate_spec(spec, 5 * round(L) + 5, 0)))
    if spec["t"] == "connected" and len(spec["parts"]) >= 2:
        def hole_moved():
            s2 = _copy.deepcopy(spec)
            k = rng.randrange(1, len(s2["parts"])) if len(s2["parts"]) > 1 else 0
            hb = O.curves_bbox(G.spec_curves_exact(s2["parts"][k])) if s2["parts"][k]["t"] != "circle" else None
            d = (O.diameter(hb) if hb else float(G.exact(s2["parts"][k]["r"]))) * 0.05
            if G.spec_num(s2["parts"][k]) == "int":
                d = max(1, round(d))
            s2["parts"][k] = translate_spec(s2["parts"][k], d, 0)
            return s2 if G.validate_composite_exact(s2) else None
        add_unequal("hole-moved", hole_moved)
        add_unequal("hole-dropped", lambda: (dict(spec, parts=spec["parts"][:-1]) if len(spec["parts"]) > 2 else spec["parts"][0]))
    if spec["t"] == "disjoint":
        add_unequal("component-dropped", lambda: (dict(spec, parts=spec["parts"][:-1]) if len(spec["parts"]) > 2 else spec["parts"][0]))
        def comp_moved():
            s2 = _copy.deepcopy(spec)
            k = rng.randrange(len(s2["parts"]))
            d = L * 0.01 if G.spec_num(s2) != "int" else 1
            s2["parts"][k] = translate_spec(s2["parts"][k], d, d)
            return s2 if G.validate_composite_exact(s2) else None
        add_unequal("component-moved", comp_moved)
    import shapepy as sp
    unequal.append(("empty", sp.EmptyShape()))
    unequal.append(("whole", sp.WholeShape()))
    case.spec["equal_variants"] = [n for n, _ in equal]
    case.spec["unequal_variants"] = [n for n, _ in unequal]

    # ---- comparisons --------------------------------------------------------------------
    # one == costs 0.05 s (small polygon) to tens of seconds (composite curved shapes: clean()
    # re-unites pieces through pynurbs least squares, quadratically often): the number of
    # comparisons is budgeted by the size of the region
    is_curved = G.spec_is_curved(spec)
    nseg = sum(len(c) for c in curves)
    weight = nseg * (30 if is_curved else 1) * (2 if len(curves) > 1 else 1)
    allowed = int(max(6, min(16, 400 / max(weight, 1))))
    case.spec["comparisons_allowed"] = allowed

    def compare(na, a, nb, b, want, what="shape"):
        ops = (("==", lambda: a == b, want), ("!=", lambda: a != b, not want))
        if rng.random() < (0.8 if allowed < 20 else 0.5):
            ops = ops[:1]
        for op, fn, expect in ops:
            got, exc = call(fn)
            case.count("eq:pairs-judged")
            case.judged()
            if exc is not None:
                case.violate("%s: (%s %s %s) raised %s" % (what, na, op, nb, exc_text(exc)), a=na, b=nb)
                return False
            if not isinstance(got, bool) and type(got).__name__ != "bool_":
                case.violate("%s: (%s %s %s) returns %s, not a bool" % (what, na, op, nb, type(got).__name__), a=na, b=nb)
                return False
            if bool(got) != expect:
                case.tags["pair"] = [na, nb]
                if expect and is_curved and ("split" in na or "split" in nb) and what == "shape":
                    # == relies on clean() to remove the vertices inserted by split; on curved
                    # boundaries clean may unite a piece with its tangent-continuous neighbour
                    # (K-union-tol).  The variant itself was certified to be the same region.  The
                    # mechanism is confirmed on this very pair: the library's own clean() must give
                    # the two objects different segmentations; if it gives the same one, the
                    # failing == has another cause and the violation stands.
                    if not cleaned_alike(a, b, L):
                        case.tags["clean_class"] = True
                        case.tags["curved_union_small_dev"] = True
                case.violate("%s: (%s %s %s) is %r, expected %r" % (what, na, op, nb, got, expect), a=na, b=nb)
                return False
        return True

    ok = True
    allpairs = [(i, j) for i in range(len(equal)) for j in range(len(equal))]
    if allowed >= 2 * len(equal):
        keep = [(0, j) for j in range(len(equal))] + [(j, 0) for j in range(1, len(equal))]
    else:
        keep = [((0, j) if j % 2 else (j, 0)) for j in range(len(equal))]
    rest = [p_ for p_ in allpairs if p_ not in keep]
    rng.shuffle(rest)
    pairs = keep + rest[:max(0, allowed - len(keep))]
    for i, j in pairs:
        (na, a), (nb, b) = equal[i], equal[j]
        if not compare(na, a, nb, b, True):
            ok = False
            break
    if ok:
        for nu, u in unequal:
            picks = [equal[0]] + ([rng.choice(equal[1:])] if (len(equal) > 1 and allowed >= 12) else [])
            for ne, e in picks:
                if not compare(ne, e, nu, u, False) or (allowed >= 12 and not compare(nu, u, ne, e, False)):
                    ok = False
                    break
            if not ok:
                break
            if allowed >= 12 and not compare(nu, u, nu, u, True):
                break
    # ---- closed curves -------------------------------------------------------------------
    if ok and hasattr(base, "jordans"):
        jbase = base.jordans[0]
        jreg = S.snap_curve(jbase)
        for ne, e in equal[1:]:
            if not hasattr(e, "jordans"):
                continue
            match = None
            for j in e.jordans:
                if O.same_curve(jreg, S.snap_curve(j), tol if tol else 0.0)[0] or O.same_curve(jreg, S.snap_curve(j), 1e-9 * max(1.0, L))[0]:
                    match = j
                    break
            if match is None:
                continue
            if not (compare("base.curve", jbase, ne + ".curve", match, True, "curve")
                    and compare(ne + ".curve", match, "base.curve", jbase, True, "curve")):
                ok = False
                break
        if ok:
            for nu, u in unequal:
                if not hasattr(u, "jordans"):
                    continue
                ju = u.jordans[0]
                same = O.same_curve(jreg, S.snap_curve(ju), 1e-4 * max(1.0, L))[0]
                if same:
                    continue
                if not compare("base.curve", jbase, nu + ".curve", ju, False, "curve"):
                    break
    # comparison must not modify the operands
    after = S.snap_shape(base)
    if after != base_reg and not S.same_denotation(base_reg, after, tol if tol else 0.0)[0]:
        case.violate("comparisons changed the base shape")
    case.nontrivial = len(equal) >= 3 and len(unequal) >= 3
    return case.finish()
