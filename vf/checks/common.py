"""Shared helpers of the per-property checks"""
from __future__ import annotations

import json
import traceback

from vf import findings as FND
from vf import runner


class Case:
    """Collects observations of one case and produces the record the worker writes."""

    def __init__(self, ctx, spec=None, stratum="-"):
        self.ctx = ctx
        self.spec = spec
        ctx.spec = spec
        self.stratum = stratum
        self.monitors = {}
        self.violations = []
        self.inconclusive = []
        self.tags = {}
        self.nontrivial = False
        self.steps = 0

    def count(self, name, n=1):
        self.monitors[name] = self.monitors.get(name, 0) + n

    def merge_counts(self, counts):
        for k, n in counts.items():
            self.count(k, n)

    def violate(self, why, **witness):
        self.violations.append((why, witness))
        self.ctx.log("VIOLATED:", why, json.dumps(witness, default=str)[:2000])

    def unsure(self, why):
        self.inconclusive.append(why)
        self.ctx.log("inconclusive:", why)

    def finish(self):
        rec = {"spec": self.spec, "stratum": self.stratum, "monitors": self.monitors,
               "nontrivial": bool(self.nontrivial), "steps": self.steps}
        if self.violations:
            why, witness = self.violations[0]
            rec["verdict"] = "violated"
            rec["why"] = why
            rec["witness"] = witness
            rec["all_violations"] = [w for w, _ in self.violations[:10]]
            rec["tags"] = self.tags
            rec["finding"] = FND.classify(self.ctx.cid, self.tags)
            # distinct witnesses are distinguished by their message class
            rec["wkey"] = "%s|%s" % (rec["finding"], why.split(":")[0][:60])
        elif self.inconclusive and not self.monitors_decided():
            rec["verdict"] = "inconclusive"
            rec["why"] = self.inconclusive[0]
        else:
            rec["verdict"] = "held"
            if self.inconclusive:
                rec["partial"] = self.inconclusive[:3]
        return rec

    def monitors_decided(self):
        return bool(self.decided)

    decided = 0

    def judged(self, n=1):
        """n observations were judged by a deciding monitor"""
        self.decided += n


def short_tb():
    return traceback.format_exc()[-1500:]


def call(fn, *args):
    """Runs a library call; returns (result, None) or (None, exception)"""
    from vf import worker

    try:
        return fn(*args), None
    except Exception as exc:  # library exceptions are observations, not harness errors
        if worker.ALARM["fired"]:
            # the watchdog interrupted the library (numpy may wrap it into a SystemError)
            raise worker.CaseTimeout()
        return None, exc


def exc_text(exc):
    return "%s: %s" % (type(exc).__name__, str(exc)[:200])


def suite_case(ctx, prop):
    """thorough tier, case 0: the repository's own test-suite as a workload under the contract
    monitors of vf/suite_plugin.py (record-only post-conditions on the real functions)"""
    import os
    import subprocess
    import tempfile

    case = Case(ctx, {"mode": "repository suite under contract monitors"}, "suite")
    repo = runner.repo_dir()
    fd, out = tempfile.mkstemp(prefix="vf-suite-", suffix=".json")
    os.close(fd)
    env = runner.child_env()
    env["VF_SUITE_OUT"] = out
    try:
        proc = subprocess.run([runner.PY, "-m", "pytest", "-q", "-p", "no:cacheprovider", "-p", "vf.suite_plugin", "--timeout=900",
                               os.path.join(repo, "tests")], cwd=repo, env=env, capture_output=True, text=True, timeout=1700)
        with open(out) as fh:
            data = json.load(fh)
    except Exception as exc:
        case.unsure("suite run failed: %r" % (exc,))
        return case.finish()
    finally:
        try:
            os.unlink(out)
        except OSError:
            pass
    for key, n in data.get("counts", {}).items():
        if key.startswith(prop + ":"):
            case.count("suite:" + key.split(":", 1)[1], n)
            case.judged(n)
    case.spec["suite_exitstatus"] = data.get("exitstatus")
    case.spec["observed"] = {k: v for k, v in data.get("counts", {}).items() if k.startswith(prop)}
    for v in data.get("violations", {}).get(prop, [])[:3]:
        case.violate("during the repository suite (%s): %s" % (v.get("test"), v["message"]))
    if data.get("monitor_errors"):
        case.unsure("monitor error: %s" % data["monitor_errors"][0][-300:])
    case.nontrivial = case.decided > 0
    return case.finish()
