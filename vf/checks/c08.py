"""C08 -- operators and queries leave operands unchanged; results share no state.

Monitors around every call of a workload of operators, comparisons, containment queries,
integrals, copies and plots: (1) exact snapshots of every operand before and after (a
re-segmentation of the same curve is tolerated, anything else is not); (2) heap-graph
disjointness: the sets of id() of all Point2D / PlanarCurve / JordanCurve / shape objects
reachable from the result and from each operand are disjoint (singletons excepted), which
sees a missing copy without needing a later mutation; (3) behavioural confirmation: the
result, then each operand, is moved / scaled / rotated / inverted in place and the other
side's snapshot must stay exactly as it was.
"""
from __future__ import annotations

import copy as _copy
from fractions import Fraction as Fr

from vf import gen as G, model as M, opwork as W, oracle as O, props as P, snapshot as S
from vf.checks.common import Case, call, exc_text

ID = "C08"
TECHNIQUE = "runtime monitoring: operand snapshots before/after every call, heap-graph disjointness, in-place mutation probes"
LEVEL = "exploration"
RULE = ("operand pairs of the C01 generator forced through every short-cut path (Empty / Whole operands, contained operands "
        "in both directions, far apart, crossing, identical) x {| & - ^ + * ~ -x, ==, !=, in (shape, curve, point), float, "
        "IntegrateShape.polynomial, box, copy, deepcopy, SimpleShape(jordan), DisjointShape([x]), plot} x 4 in-place mutations "
        "of the result and of each operand; non-trivial = a call that returned a defined shape (or a query on crossing "
        "operands) and whose object graphs were compared; distinct = distinct case specs")
ASSUMPTIONS = [
    "operand comparison: exact snapshot equality, or re-segmentation equivalence through the oracle's same_curve "
    "(exact for rational polygons, 1e-9*L otherwise)",
    "object graphs are walked through the public read-only properties (jordans, subshapes, segments, ctrlpoints)",
]
DECIDING_MONITORS = ("call:operands-compared", "call:graphs-compared")
CASE_TIMEOUT = 300
SHARD_SIZE = 8


def budget(tier):
    return 160 if tier == "quick" else 2400


def graph_ids(obj):
    import shapepy
    from shapepy import shape as shp

    if isinstance(obj, shp.SingletonShape) or not isinstance(obj, (shp.BaseShape, shapepy.JordanCurve)):
        return {}, []
    ids, keep = S.object_ids(obj)
    # the BezierCurve held inside every PlanarCurve
    jordans = [obj] if isinstance(obj, shapepy.JordanCurve) else list(obj.jordans)
    for jordan in jordans:
        for seg in jordan.segments:
            inner = seg.__dict__.get("_PlanarCurve__planar")
            if inner is not None:
                ids[id(inner)] = "BezierCurve"
                keep.append(inner)
    return ids, keep


MUTATIONS = [
    ("move", lambda o: o.move(3, -2)),
    ("scale", lambda o: o.scale(2, 3)),
    ("rotate", lambda o: o.rotate(0.7)),
    ("invert", lambda o: o.invert() if hasattr(o, "invert") else [j.invert() for j in o.jordans]),
]


def mutate_and_compare(case, label, target, others, names):
    """mutate `target` in place; every object in `others` must keep its exact snapshot"""
    import shapepy
    from shapepy import shape as shp

    if isinstance(target, shp.SingletonShape) or not isinstance(target, (shp.BaseShape, shapepy.JordanCurve)):
        return
    before = [S.snap(o) if isinstance(o, (shp.BaseShape, shapepy.JordanCurve)) else None for o in others]
    for mname, fn in MUTATIONS:
        _, exc = call(fn, target)
        if exc is not None:
            case.count("mutation-raised")
            continue
        case.count("call:mutations-compared")
        for o, b, n in zip(others, before, names):
            if b is None:
                continue
            if S.snap(o) != b:
                case.violate("%s: %s of %s changed %s (shared mutable state)" % (label, mname, names[-1] if False else "one side", n),
                             call=label, mutation=mname)
                return


def observe(case, label, fn, operands, names, exact_tols):
    """runs fn(*operands); compares operand snapshots, object graphs and mutations"""
    import shapepy
    from shapepy import shape as shp

    before = [S.snap(o) for o in operands]
    guard = P.BigNumGuard()
    guard.install()
    try:
        res, exc = P.guarded_call(fn, *operands)
    finally:
        guard.remove()
    case.count("call:operands-compared")
    case.judged()
    for o, b, n, tol in zip(operands, before, names, exact_tols):
        a = S.snap(o)
        if a != b:
            ok, why = S.same_denotation(b, a, tol)
            if not ok:
                case.violate("%s changed its operand %s: %s%s" % (label, n, why, " (the call raised %s)" % exc_text(exc) if exc else ""),
                             call=label, before=S.region_to_json(b), after=S.region_to_json(a))
                return None
            case.count("call:operand-resegmented")
    if exc is not None:
        case.count("call:raised")
        return None
    if isinstance(res, (shp.BaseShape, shapepy.JordanCurve)) and not isinstance(res, shp.SingletonShape):
        rids, keep_r = graph_ids(res)
        case.count("call:graphs-compared")
        for o, n in zip(operands, names):
            oids, keep_o = graph_ids(o)
            common = set(rids) & set(oids)
            if common:
                kinds = sorted({rids[i] for i in common})
                case.violate("%s: the result shares %d object(s) (%s) with operand %s" % (label, len(common), ", ".join(kinds), n),
                             call=label)
                return res
        # behavioural confirmation, both directions
        mutate_and_compare(case, label + " [mutating the result]", res, operands, names)
        for o, n in zip(operands, names):
            others = [res] + [x for x in operands if x is not o]
            mutate_and_compare(case, label + " [mutating operand %s]" % n, o, others, ["result"] + [m for m in names if m != n])
        case.nontrivial = True
    elif isinstance(res, shp.SingletonShape):
        case.count("call:singleton-result")
    return res


def case(ctx):
    import shapepy
    from shapepy import shape as shp

    rng = ctx.rng
    forced = rng.choice(["random", "random", "contained", "contained-rev", "empty", "whole", "identical", "far"])
    if forced in ("random", "far"):
        sa, sb, info = W.make_pair(rng, curved_prob=0.15)
        if forced == "far":
            from vf.checks.c07 import translate_spec

            sa, _ = G.random_shape(rng, rng.choice("SCDUV"), rng.choice(["int", "frac", "float"]), False, (0, 0), 10.0)
            box = O.curves_bbox(O.region_curves(S.snap_shape(G.build(sa))))
            sb = translate_spec(sa, int(5 * O.diameter(box)) + 7, 0)
    elif forced in ("contained", "contained-rev"):
        num = rng.choice(["int", "frac", "float"])
        outer, _ = G.random_connected(rng, num, False, (0, 0), 10.0, nholes=1) if rng.random() < 0.4 else G.random_simple(rng, num, False, (0, 0), 10.0)
        if outer["t"] == "connected":
            # inner: a small polygon inside the hole-free ring?  use a point far inside: the hole itself filled
            inner = dict(outer["parts"][1])
            import copy

            inner = copy.deepcopy(inner)
            inner["v"] = [inner["v"][0]] + inner["v"][:0:-1]  # counter-clockwise: the filled hole (touches the hole: contact)
            sa, sb = outer, inner
        else:
            verts = [(G.exact(x), G.exact(y)) for x, y in outer["v"]]
            cx = sum(v[0] for v in verts) / len(verts)
            cy = sum(v[1] for v in verts) / len(verts)
            k = Fr(1, rng.choice([4, 5, 8]))
            small = [(cx + (v[0] - cx) * k, cy + (v[1] - cy) * k) for v in verts]
            if num == "int":
                small = [(Fr(round(p[0])), Fr(round(p[1]))) for p in small]
            try:
                inside = len(set(small)) == len(small) and G.valid_polygon(small) and O.region_contains(("simple", G.poly_curve(verts)), small[0], 0)
            except (O.OnBoundary, O.TooClose):  # the rounded copy has a vertex on the outer boundary
                inside = False
            if inside:
                sa, sb = outer, G.poly_spec(small, num if num != "int" else "int")
            else:
                sa, sb = outer, G.random_simple(rng, num, False, (float(cx), float(cy)), 0.5)[0]
        if forced == "contained-rev":
            sa, sb = sb, sa
    elif forced == "empty":
        sa, _ = G.random_shape(rng, rng.choice("SCDUV"), None, rng.random() < 0.15, (0, 0), 10.0)
        sb = {"t": "empty"}
        if rng.random() < 0.5:
            sa, sb = sb, sa
    elif forced == "whole":
        sa, _ = G.random_shape(rng, rng.choice("SCDUV"), None, rng.random() < 0.15, (0, 0), 10.0)
        sb = {"t": "whole"}
        if rng.random() < 0.5:
            sa, sb = sb, sa
    else:
        sa, _ = G.random_shape(rng, rng.choice("SCDUV"), None, rng.random() < 0.15, (0, 0), 10.0)
        import copy

        sb = copy.deepcopy(sa)
    case = Case(ctx, {"A": sa, "B": sb, "forced": forced}, "forced-%s" % forced)
    ra, rb = S.snap_shape(G.build(sa)), S.snap_shape(G.build(sb))
    cls = W.pair_class(ra, rb)
    case.tags["contact"] = cls["contact"]
    case.stratum += "-" + cls["class"]
    exact = S.is_exact_region(ra) and S.is_exact_region(rb) and G.spec_num(sa) in ("int", "frac", "none") and G.spec_num(sb) in ("int", "frac", "none")
    tola = 0.0 if exact else S.region_tol(ra, 1e-9) if O.region_curves(ra) else 0.0
    tolb = 0.0 if exact else S.region_tol(rb, 1e-9) if O.region_curves(rb) else 0.0
    curved = G.spec_is_curved(sa) or G.spec_is_curved(sb)
    binary = [("A | B", lambda a, b: a | b), ("A & B", lambda a, b: a & b), ("A - B", lambda a, b: a - b),
              ("A ^ B", lambda a, b: a ^ b), ("A + B", lambda a, b: a + b), ("A * B", lambda a, b: a * b),
              ("A == B", lambda a, b: a == b), ("A != B", lambda a, b: a != b), ("B in A", lambda a, b: b in a)]
    if curved:
        rng.shuffle(binary)
        binary = binary[:4]
    for label, fn in binary:
        A, B = G.build(sa), G.build(sb)
        if label in ("A == B", "A != B", "B in A") and isinstance(A, shp.SingletonShape) and label != "B in A":
            pass
        observe(case, label, fn, [A, B], ["A", "B"], [tola, tolb])
        if case.violations:
            return case.finish()
    unary = [("~A", lambda a: ~a), ("-A", lambda a: -a), ("copy(A)", lambda a: _copy.copy(a)), ("deepcopy(A)", lambda a: _copy.deepcopy(a)),
             ("float(A)", lambda a: float(a)), ("moment(A,1,1)", lambda a: shapepy.IntegrateShape.polynomial(a, 1, 1) if hasattr(a, "jordans") else 0),
             ("A.box()", lambda a: a.box() if hasattr(a, "box") else None), ("p in A", lambda a: (0.25, 0.5) in a),
             ("curve in A", lambda a: (G.build(sb).jordans[0] in a) if hasattr(G.build(sb), "jordans") and hasattr(a, "jordans") else None),
             ("DisjointShape([A])", lambda a: shapepy.DisjointShape([a]) if isinstance(a, (shapepy.SimpleShape, shapepy.ConnectedShape)) else None),
             ("SimpleShape(A.jordans[0])", lambda a: shapepy.SimpleShape(a.jordans[0]) if hasattr(a, "jordans") else None)]
    for label, fn in unary:
        A = G.build(sa)
        res = observe(case, label, fn, [A], ["A"], [tola])
        if case.violations:
            return case.finish()
        if label in ("copy(A)", "deepcopy(A)") and isinstance(A, shp.SingletonShape):
            case.count("copy:singleton-judged")
            if res is not A:
                case.violate("%s of %s is not the singleton itself" % (label, type(A).__name__))
    # SimpleShape(jordan): the jordan given by the caller stays independent
    A = G.build(sa)
    if hasattr(A, "jordans"):
        jordan = A.jordans[0]
        jb = S.snap_curve(jordan)
        shape, exc = call(shapepy.SimpleShape, jordan)
        if exc is None:
            rids, k1 = graph_ids(shape)
            jids, k2 = graph_ids(jordan)
            case.count("call:graphs-compared")
            if set(rids) & set(jids):
                case.violate("SimpleShape(jordan) shares %d object(s) with the jordan it was given" % len(set(rids) & set(jids)))
            else:
                jordan.move(1, 1)
                if S.snap_shape(shape) != ("simple", jb):
                    case.violate("moving the jordan afterwards moved the SimpleShape built from it")
    # plotting a shape with segments of degree 4 or 5 (no primitive produces them; the plotter only
    # knows lines, quadratics and cubics and must not "repair" the shape it is given)
    if rng.random() < 0.25:
        import matplotlib

        matplotlib.use("Agg")
        from matplotlib.figure import Figure

        segs = G.blob_segments(rng, rng.randint(3, 5), rng.choice([4, 5]), (0, 0), 6.0, 10.0, False)
        hspec = G.ctrl_spec(segs, "float")
        H = G.build(hspec)
        fig = Figure()
        ax = fig.add_subplot(111)
        observe(case, "plot(shape with degree-%d segments)" % (len(segs[0]) - 1), lambda a: shapepy.ShapePloter(fig=fig, ax=ax).plot(a), [H], ["A"], [1e-12])
    # plotting
    if rng.random() < 0.3:
        import matplotlib

        matplotlib.use("Agg")
        from matplotlib.figure import Figure

        A = G.build(sa)
        fig = Figure()
        ax = fig.add_subplot(111)
        observe(case, "plot(A)", lambda a: shapepy.ShapePloter(fig=fig, ax=ax).plot(a), [A], ["A"], [tola])
    return case.finish()
