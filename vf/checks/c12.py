"""C12 -- results do not depend on position, orientation or unit of length.

Reference-model monitor under similarity maps: for a pair (A, B) verified at unit scale in
the same run, the transformed operands T(A), T(B) are built with the library's own
move/rotate/scale (checked by C09) and `T(A) op T(B)` is compared with the model of
`T(A op B)`: membership of the T-images of certified points, area ratio s^2, kind of the
result, `T(p) in T(A)` and `T(B) in T(A)`.
"""
from __future__ import annotations

import math
from fractions import Fraction as Fr

from vf import gen as G, model as M, opwork as W, oracle as O, props as P, snapshot as S
from vf.checks.common import Case, call, exc_text

ID = "C12"
TECHNIQUE = "runtime monitoring: reference-model monitor under similarity maps (metamorphic relation with an exact model)"
LEVEL = "exploration"
RULE = ("operand pairs (simple / connected / disjoint / unbounded, polygons float and rational, circles and Bezier blobs) in "
        "general position that hold at unit scale (re-verified in the same run) x similarity maps: uniform scale 1e-3..1e5 "
        "log-uniform, rotation by any angle, translation up to 1e6; operators | & - ^ ~, point and shape containment; "
        "non-trivial = crossing operands with >= 8 judged points under a non-identity map; distinct = distinct case specs")
ASSUMPTIONS = [
    "query points are certified >= max(1e-5, 1e-5*L, 1e-5/s) from every boundary at unit scale, so that their images stay "
    "outside the library's documented absolute boundary tolerance (1e-6) after scaling by s",
    "operands are in general position at unit scale (oracle classification); pairs that already fail at unit scale are "
    "C01's business and inconclusive here",
    "areas are compared to 1e-6 relative plus the cancellation error of the boundary integral at the translated position",
]
DECIDING_MONITORS = ("similarity:points-judged",)
CASE_TIMEOUT = 300
SHARD_SIZE = 6
OPS = ["or", "and", "sub", "xor", "inv"]


def budget(tier):
    return 144 if tier == "quick" else 1200


def transform(shape, s, theta, dx, dy):
    import shapepy

    if not hasattr(shape, "jordans"):
        return shape
    shape.scale(s, s)
    shape.rotate(theta)
    shape.move(dx, dy)
    return shape


def timg(p, s, theta, dx, dy):
    x, y = float(p[0]) * s, float(p[1]) * s
    c, sn = math.cos(theta), math.sin(theta)
    return (c * x - sn * y + dx, sn * x + c * y + dy)


def kind(shape):
    return S.snap_shape(shape)[0]


def case(ctx):
    rng = ctx.rng
    curved = rng.random() < 0.25
    num = "float" if curved else rng.choice(["int", "frac", "float", "float"])
    for attempt in range(20):
        sa, sb, info = W.make_pair(rng, curved_prob=1.0 if curved else 0.0, kinds="SSSSCDUV")
        if not curved:
            # make both operands of the chosen numeric kind
            if G.spec_num(sa) != num or G.spec_num(sb) != num:
                continue
        ra, rb = S.snap_shape(G.build(sa)), S.snap_shape(G.build(sb))
        cls = W.pair_class(ra, rb)
        if cls["class"] in ("crossing",) or (cls["class"] == "apart" and rng.random() < 0.2):
            break
    else:
        case = Case(ctx, {"note": "no pair in general position generated"}, "rejected")
        case.unsure("generator: no pair in general position in 20 attempts")
        return case.finish()
    s = 10 ** rng.uniform(-3, 5)
    if rng.random() < 0.15:
        s = 1.0
    theta = rng.uniform(0, math.tau) if rng.random() < 0.8 else 0.0
    dmax = 10 ** rng.uniform(0, 6)
    dx, dy = (rng.uniform(-dmax, dmax), rng.uniform(-dmax, dmax)) if rng.random() < 0.8 else (0.0, 0.0)
    case = Case(ctx, {"A": sa, "B": sb, "scale": repr(s), "angle": repr(theta), "move": [repr(dx), repr(dy)]},
                "%s-%s-s1e%+d" % ("curved" if curved else num, cls["class"], int(math.floor(math.log10(s)))))
    curves = O.region_curves(ra) + O.region_curves(rb)
    L = max(O.diameter(O.curves_bbox(curves)), 1e-9)
    delta0 = Fr(max(1e-5, 1e-5 * L, 1e-5 / s))
    case.tags["contact"] = cls["contact"]
    case.tags["curved"] = bool(curved)
    # the smallest curved boundary decides when the absolute tolerances bite (a small curved hole
    # or component inside a larger configuration)
    curved_diams = [O.diameter(O.curve_bbox(c)) for c in curves if any(len(seg) > 2 for seg in c)]
    case.tags["diameter"] = (min(curved_diams) if curved_diams else L) * s
    case.tags["maxcoord"] = max(abs(dx), abs(dy)) + L * s
    case.tags["scale"] = s
    ops = list(OPS)
    if curved:
        rng.shuffle(ops)
        ops = ops[:2]
    total = 0
    for op in ops:
        if op == "inv":
            expr = ("inv", M.leaf(ra))
            unit_fn = lambda a, b: ~a
            label = "~A"
        else:
            expr = (op, M.leaf(ra), M.leaf(rb))
            unit_fn = M.BINARY[op]
            label = "A %s B" % M.SYMBOL[op]
        pts, _ = M.sample_points(rng, expr, 24, delta0)
        wants = []
        for p in pts:
            try:
                wants.append((p, M.contains(expr, p, delta0)))
            except O.TooClose:
                pass
        if not wants:
            continue
        # unit scale first
        guard = P.BigNumGuard()
        guard.install()
        try:
            R1, exc = P.guarded_call(unit_fn, G.build(sa), G.build(sb))
        finally:
            guard.remove()
        if exc is not None:
            case.count("unit-scale:raised")
            continue
        bad_unit = False
        for p, want in wants:
            lp = (float(p[0]), float(p[1]))
            got, e2 = call(lambda: lp in R1)
            if e2 is not None or bool(got) != want:
                bad_unit = True
                break
        if bad_unit:
            case.count("unit-scale:wrong (C01's business)")
            continue
        # transformed operands
        TA = transform(G.build(sa), s, theta, dx, dy)
        TB = transform(G.build(sb), s, theta, dx, dy)
        guard = P.BigNumGuard()
        guard.install()
        try:
            R2, exc = P.guarded_call(unit_fn, TA, TB)
        finally:
            guard.remove()
        case.count("similarity:operators")
        if op == "xor":
            # A ^ B = (A - B) | (B - A): the operands of the internal union touch at the crossing
            # points by construction (K-contact); rounding at the transformed position decides
            # whether the touching points still coincide within the library's 1e-9
            case.tags["contact_inside_xor"] = True
        if exc is not None:
            case.violate("T(%s) raised %s although the untransformed operator holds (scale %.3g, angle %.3f, move (%.3g, %.3g))" % (
                label, exc_text(exc), s, theta, dx, dy), op=label)
            continue
        for p, want in wants:
            q = timg(p, s, theta, dx, dy)
            got, e2 = call(lambda: q in R2)
            case.count("similarity:points-judged")
            case.judged()
            total += 1
            if e2 is not None:
                case.violate("T(p) in T(%s) raised %s" % (label, exc_text(e2)), op=label)
                break
            if bool(got) != want:
                case.violate("T(%s): point T(p) = %r -> %r, but p = %s in %s is %r (scale %.3g, angle %.3f, move (%.3g, %.3g))" % (
                    label, q, got, S.fmt_point((float(p[0]), float(p[1]))), label, want, s, theta, dx, dy), op=label)
                break
        if case.violations:
            break
        k1, k2 = kind(R1), kind(R2)
        if k1 != k2:
            case.violate("T(%s) is a %s shape, %s is a %s shape" % (label, k2, label, k1), op=label)
        a1, e1 = call(float, R1)
        a2, e2 = call(float, R2)
        if e1 is None and e2 is None and math.isfinite(a1) and math.isfinite(a2):
            case.count("similarity:areas-judged")
            big = max(abs(dx), abs(dy)) + L * s
            npts = sum(len(c) for c in O.region_curves(S.snap_shape(R2))) if hasattr(R2, "jordans") else 1
            tol = 1e-6 * abs(a1) * s * s + 1e-12 * big * big * max(npts, 1) * 4
            if abs(a2 - a1 * s * s) > tol:
                case.violate("area of T(%s) is %r, s^2 * area(%s) = %r" % (label, a2, label, a1 * s * s), op=label)
    # containment under T
    if not case.violations:
        A, B = G.build(sa), G.build(sb)
        TA = transform(G.build(sa), s, theta, dx, dy)
        TB = transform(G.build(sb), s, theta, dx, dy)
        if hasattr(A, "jordans"):
            for p in G.random_points(rng, O.curves_bbox(curves), 12):
                try:
                    want = O.region_contains(ra, p, delta0)
                except O.TooClose:
                    continue
                q = timg(p, s, theta, dx, dy)
                got, exc = call(lambda: q in TA)
                case.count("similarity:points-judged")
                case.judged()
                total += 1
                if exc is not None or bool(got) != want:
                    case.violate("T(p) in T(A) is %r but p in A is %r (scale %.3g, move (%.3g, %.3g))" % (
                        exc_text(exc) if exc else got, want, s, dx, dy))
                    break
        c1, e1 = call(lambda: B in A)
        c2, e2 = call(lambda: TB in TA)
        # the same two objects, queried (caches warm), then transformed in place with the rotation
        # applied last: R(S p + R^-1 d) = R S p + d
        cth, sth = math.cos(theta), math.sin(theta)
        dxp, dyp = cth * dx + sth * dy, -sth * dx + cth * dy
        for obj in (A, B):
            if hasattr(obj, "jordans"):
                obj.scale(s, s)
                obj.move(dxp, dyp)
                obj.rotate(theta)
        c3, e3 = call(lambda: B in A)
        if e1 is None and (e3 is not None or bool(c3) != bool(c1)):
            case.violate("after transforming the two shapes in place (scale, move, rotate) `B in A` is %r, before it was %r (scale %.3g, angle %.3f)" % (
                exc_text(e3) if e3 else c3, c1, s, theta))
        case.count("similarity:containment-judged")
        if e1 is None:
            if e2 is not None:
                case.violate("T(B) in T(A) raised %s, B in A is %r" % (exc_text(e2), c1))
            elif bool(c1) != bool(c2):
                case.violate("T(B) in T(A) is %r but B in A is %r (scale %.3g, angle %.3f, move (%.3g, %.3g))" % (c2, c1, s, theta, dx, dy))
    if case.violations and case.tags.get("contact_inside_xor") and "^" in case.violations[0][0]:
        case.tags["contact"] = True
    case.nontrivial = total >= 8 and cls["class"] == "crossing" and (s != 1.0 or theta != 0.0 or dx != 0.0)
    return case.finish()
