"""C03 -- `B in A` for curves and shapes means subset.

Reference-model monitor on every containment answer of generated ordered pairs: for
polygonal regions the oracle decides  B subset of closure(A)  exactly (boundary pieces cut
at every contact, midpoints located exactly, shared pieces compared by direction); for
curved regions the truth is known by construction (contraction about a kernel point,
translated far away, holes, components) and re-checked by witness points.  Consequences of a
positive answer (A|B is A, A&B is B) and reflexivity are checked through the oracle.
"""
from __future__ import annotations

import copy as _copy
import math
from fractions import Fraction as Fr

from vf import gen as G, opwork as W, oracle as O, props as P, snapshot as S
from vf.checks.common import Case, call, exc_text
from vf.checks.c07 import translate_spec

ID = "C03"
TECHNIQUE = "runtime monitoring: reference-model monitor with an exact polygon subset decision and truth-by-construction for curved pairs"
LEVEL = "exploration"
RULE = ("ordered pairs of shapes of all kinds incl. Empty and Whole on both sides: random placements (far / nested / crossing), "
        "pairs nested by construction (contraction about an interior point, hole-in-hole, component of a disjoint shape, a shape "
        "and itself, a shape with an extra hole, unbounded in unbounded), polygons int/Fraction/float exactly decided, curved "
        "pairs by construction; closed curves against shapes with both boundary flags; non-trivial = a pair with two defined "
        "shapes whose truth value was decided by the oracle; distinct = distinct case specs")
ASSUMPTIONS = [
    "polygonal pairs: exact decision procedure polygon_region_subset (oracle); pairs whose boundaries come closer than 1e-4 of "
    "the diameter without touching exactly are not judged (library tolerance 1e-6)",
    "curved pairs: truth by construction with margins >= 5% of the size, confirmed by certified witness points",
    "consequences A|B == A and A&B == B are compared through the oracle (same_region / membership), not through the library's ==",
]
DECIDING_MONITORS = ("subset:judged",)
CASE_TIMEOUT = 300
SHARD_SIZE = 8


def budget(tier):
    return 224 if tier == "quick" else 4000


def scale_spec(spec, k, center):
    """contraction of a poly/ctrl/circle spec about `center` by the rational factor k"""
    spec = _copy.deepcopy(spec)
    cx, cy = Fr(center[0]), Fr(center[1])

    def mp(x, y, num):
        nx, ny = cx + (G.exact(x) - cx) * k, cy + (G.exact(y) - cy) * k
        if num == "float":
            return [repr(float(nx)), repr(float(ny))]
        if num == "int":
            return [str(round(nx)), str(round(ny))]
        return [str(nx), str(ny)]

    t = spec["t"]
    if t == "poly":
        spec["v"] = [mp(x, y, spec["num"]) for x, y in spec["v"]]
    elif t == "ctrl":
        spec["segs"] = [[mp(x, y, spec["num"]) for x, y in seg] for seg in spec["segs"]]
    elif t == "circle":
        c = mp(spec["c"][0], spec["c"][1], "float")
        spec["c"] = c
        spec["r"] = repr(float(G.exact(spec["r"]) * k))
    else:
        return None
    return spec


def constructed_pair(rng):
    """(specB, specA, expected, how) with the truth known by construction, or None"""
    curved = rng.random() < 0.5
    num = "float" if curved else rng.choice(["int", "frac", "float"])
    size = 10.0
    how = rng.choice(["contraction", "dilation", "far", "self", "extra-hole", "component", "complements", "hole-filler"])
    base, _ = G.random_simple(rng, num, curved, (0, 0), size)
    if base["t"] == "poly":
        verts = [(G.exact(x), G.exact(y)) for x, y in base["v"]]
        center = (sum(v[0] for v in verts) / len(verts), sum(v[1] for v in verts) / len(verts))
        try:
            if not O.region_contains(("simple", G.poly_curve(verts)), center, 0):
                center = None
        except O.TooClose:
            center = None
        if center is not None:
            # star-shapedness about the centroid is needed for the contraction argument
            for v in verts:
                mid = ((center[0] + v[0]) / 2, (center[1] + v[1]) / 2)
                for w in (mid, ((center[0] + 9 * v[0]) / 10, (center[1] + 9 * v[1]) / 10)):
                    try:
                        if not O.region_contains(("simple", G.poly_curve(verts)), w, 0):
                            center = None
                            break
                    except O.TooClose:
                        center = None
                        break
                if center is None:
                    break
        if center is None and how in ("contraction", "dilation", "complements", "hole-filler", "extra-hole"):
            how = "far"
    else:
        center = (Fr(0), Fr(0))  # blobs and circles are star-shaped about their centre by construction
    if base["t"] == "circle":
        center = (G.exact(base["c"][0]), G.exact(base["c"][1]))
    if how == "contraction":
        k = Fr(rng.choice([1, 2, 3]), 4)
        small = scale_spec(base, k, center)
        return small, base, True, "B = A contracted by %s about an interior point" % k
    if how == "dilation":
        k = Fr(rng.choice([5, 6, 8]), 4)
        big = scale_spec(base, k, center)
        return big, base, False, "B = A dilated by %s" % k
    if how == "far":
        d = 40 if num != "int" else 400
        return translate_spec(base, d, 0), base, False, "B = A moved far away"
    if how == "self":
        return _copy.deepcopy(base), base, True, "B = A (another object)"
    if how == "complements":
        # unbounded in unbounded: ~big in ~small  (True), ~small in ~big (False)
        k = Fr(1, 2)
        small = scale_spec(base, k, center)
        from vf.checks.c07 import flip

        if rng.random() < 0.5:
            return flip(base), flip(small), True, "B = exterior of A0, A = exterior of the contraction of A0"
        return flip(small), flip(base), False, "B = exterior of the contraction, A = exterior of A0"
    if how == "extra-hole" or how == "hole-filler":
        k = Fr(1, 3)
        small = scale_spec(base, k, center)
        from vf.checks.c07 import flip

        ring = {"t": "connected", "parts": [base, flip(small)]}
        if how == "extra-hole":
            if rng.random() < 0.5:
                return ring, base, True, "B = A with an extra hole"
            return base, ring, False, "A = B with an extra hole"
        tiny = scale_spec(base, Fr(1, 6), center)
        if rng.random() < 0.5:
            return tiny, ring, False, "B lies inside the hole of A"
        mid = scale_spec(base, Fr(2, 3), center)
        return {"t": "connected", "parts": [mid, flip(scale_spec(base, Fr(1, 2), center))]}, ring, True, "ring inside ring (hole in hole)"
    # component
    other = translate_spec(base, 40 if num != "int" else 400, 0)
    dis = {"t": "disjoint", "parts": [base, other]}
    if rng.random() < 0.5:
        return base, dis, True, "B is a component of A"
    return dis, base, False, "A is a component of B"


def touching_pair(rng):
    """polygon B with some vertices exactly on edges of polygon A (rational points), the others
    pushed inside or outside: contact configurations decided exactly by the oracle"""
    num = "frac"
    base, _ = G.random_polygon(rng, num, (0, 0), 10.0, family=rng.choice(["rectilinear", "rectilinear", "star", "star", "convex"]))
    verts = [(G.exact(x), G.exact(y)) for x, y in base["v"]]
    n = len(verts)
    cx = sum(v[0] for v in verts) / n
    cy = sum(v[1] for v in verts) / n
    k = rng.randint(3, min(6, n + 2))
    picks = sorted(rng.sample(range(n), min(k, n)))
    if rng.random() < 0.35 and n >= 5:
        # B is the polygon through a subset of the vertices of A (in order): every edge of B is a
        # side of A or a chord between two of its vertices, possibly across a reflex notch
        bverts = [verts[i] for i in picks]
        if len(set(bverts)) >= 3 and O.polygon_is_simple(G.poly_curve(bverts)):
            if O.shoelace(bverts) < 0:
                bverts.reverse()
            return G.poly_spec(bverts, "frac"), G.poly_spec(verts, "frac")
    bverts = []
    for i in picks:
        a, b = verts[i], verts[(i + 1) % n]
        t = Fr(rng.randint(1, 7), 8)
        p = (a[0] + t * (b[0] - a[0]), a[1] + t * (b[1] - a[1]))
        mode = rng.choice(["on", "on", "on", "in", "out", "vertex"])
        if mode == "vertex":
            p = a
        elif mode == "in":
            p = (p[0] + (cx - p[0]) * Fr(1, 4), p[1] + (cy - p[1]) * Fr(1, 4))
        elif mode == "out":
            p = (p[0] - (cx - p[0]) * Fr(1, 4), p[1] - (cy - p[1]) * Fr(1, 4))
        if num == "int" and (p[0].denominator != 1 or p[1].denominator != 1):
            p = (p[0] * 8, p[1] * 8)
        bverts.append(p)
    if num == "int":
        # keep integer coordinates: scale A by 8 as well
        verts = [(v[0] * 8, v[1] * 8) for v in verts]
        bverts = [(p[0] if p[0].denominator == 1 else p[0], p[1]) for p in bverts]
        bverts = [(Fr(round(p[0])), Fr(round(p[1]))) if (abs(p[0]) < 50 and False) else p for p in bverts]
        # points computed on the unscaled polygon need scaling too
        bverts = [p if any(abs(p[0]) > 60 or abs(p[1]) > 60 for _ in [0]) else p for p in bverts]
        return None
    if len(set(bverts)) < 3 or not O.polygon_is_simple(G.poly_curve(bverts)):
        return None
    if O.shoelace(bverts) < 0:
        bverts.reverse()
    return G.poly_spec(bverts, "frac"), G.poly_spec(verts, "frac")


def tight_box_pair(rng):
    """curved B inside a rectangle A that contains the curve but not B's control points"""
    b, _ = G.random_blob(rng, (rng.uniform(-5, 5), rng.uniform(-5, 5)), 10.0, degree=rng.choice([2, 3]), mixed=False)
    curve = G.spec_curves_exact(b)[0]
    pts = O.flatten(curve, 64)
    xs, ys = [p[0] for p in pts], [p[1] for p in pts]
    m = 0.02 * max(max(xs) - min(xs), max(ys) - min(ys))
    x0, x1, y0, y1 = min(xs) - m, max(xs) + m, min(ys) - m, max(ys) + m
    a = G.poly_spec([(Fr(x0), Fr(y0)), (Fr(x1), Fr(y0)), (Fr(x1), Fr(y1)), (Fr(x0), Fr(y1))], "float")
    cb = O.curve_bbox(curve)
    pokes = float(cb[0]) < x0 or float(cb[2]) > x1 or float(cb[1]) < y0 or float(cb[3]) > y1
    return b, a, pokes


def sample_witness(rng, rb, ra, delta, n=60):
    """a point certified inside B and outside closed A, or None"""
    curves = O.region_curves(rb) + O.region_curves(ra)
    if not curves:
        return None
    box = O.curves_bbox(curves)
    pts = G.random_points(rng, box, n)
    diam = O.diameter(box)
    for c in O.region_curves(rb)[:4] + O.region_curves(ra)[:4]:
        pts += G.near_boundary_points(rng, c, 8, [diam * 1e-3, diam * 1e-2, diam * 5e-2])
    for p in pts:
        try:
            if O.region_contains(rb, p, delta) and not O.region_contains(ra, p, delta):
                return p
        except O.TooClose:
            continue
    return None


def case(ctx):
    import shapepy

    rng = ctx.rng
    mode = rng.choice(["random", "random", "constructed", "constructed", "singleton", "curve", "touching", "touching"])
    how = mode
    expected = None
    if mode == "touching" or (mode == "constructed" and rng.random() < 0.1):
        mode = "constructed"
        got = None
        for _ in range(6):
            got = touching_pair(rng)
            if got is not None:
                break
        if got is None:
            got = constructed_pair(rng)
        else:
            got = (got[0], got[1], None, "B has vertices exactly on edges / vertices of A")
        sb, sa, expected, how = got
        if expected is None:
            mode = "touching"
    elif mode == "constructed" and rng.random() < 0.2:
        b, a, pokes = tight_box_pair(rng)
        sb, sa, expected, how = b, a, True, "curved B inside a rectangle that excludes some of B's control points" if pokes else "curved B inside its inflated bounding rectangle"
    elif mode == "constructed":
        got = constructed_pair(rng)
        if got is None or got[0] is None or got[1] is None:
            case = Case(ctx, {"mode": mode}, "rejected")
            case.unsure("construction not available")
            return case.finish()
        sb, sa, expected, how = got
    elif mode == "singleton":
        s, _ = G.random_shape(rng, rng.choice("SCDUV"), None, rng.random() < 0.2, (0, 0), 10.0)
        single = {"t": rng.choice(["empty", "whole"])}
        sb, sa = (single, s) if rng.random() < 0.5 else (s, single)
        if rng.random() < 0.2:
            sb, sa = {"t": rng.choice(["empty", "whole"])}, {"t": rng.choice(["empty", "whole"])}
        expected = (sb["t"] == "empty") or (sa["t"] == "whole")
        how = "%s in %s" % (sb["t"], sa["t"])
    elif mode == "random" and rng.random() < 0.3:
        # two unbounded simple shapes (exteriors) whose bounded complements are close to each
        # other: boxes overlap, complements disjoint / nested / crossing
        from vf.checks.c07 import flip

        num = rng.choice(["int", "frac", "float"])
        p1, _ = G.random_polygon(rng, num, (0, 0), 10.0, family=rng.choice(["triangle", "rectilinear", "star"]))
        d = rng.choice([6.0, 9.0, 12.0, 16.0])
        ang = rng.uniform(0, math.tau)
        off = (d * math.cos(ang), d * math.sin(ang))
        if num == "int":
            off = (round(off[0] * 3), round(off[1] * 3))
        p2, _ = G.random_polygon(rng, num, off, rng.choice([2.0, 4.0, 8.0]) if num != "int" else 12.0, family=rng.choice(["triangle", "convex", "star"]))
        sa, sb = flip(p1), flip(p2)
        if rng.random() < 0.5:
            sa, sb = sb, sa
        how = "exteriors of two polygons"
    else:
        sa, sb, info = W.make_pair(rng, curved_prob=0.0, kinds="SSSSCCDDNUUV")
    case = Case(ctx, {"B": sb, "A": sa, "how": how}, "%s-%s" % (mode, "curved" if (G.spec_is_curved(sa) or G.spec_is_curved(sb)) else G.spec_num(sa)))
    A, B = G.build(sa), G.build(sb)
    ra, rb = S.snap_shape(A), S.snap_shape(B)
    curves = O.region_curves(ra) + O.region_curves(rb)
    L = max(O.diameter(O.curves_bbox(curves)), 1e-9) if curves else 1.0
    polygonal = all(O.is_polygonal(c) for c in curves)
    cls = W.pair_class(ra, rb)
    case.tags["contact"] = cls["contact"]
    case.stratum += "-" + cls["class"]
    # ---- truth ------------------------------------------------------------------------
    truth = None
    source = None
    if mode == "curve":
        return curve_case(case, ctx, A, B, ra, rb, polygonal, cls, L)
    if polygonal and curves:
        near = cls.get("near") and not (cls.get("touch") or cls.get("overlap"))
        if near:
            case.unsure("boundaries closer than 1e-4*L without exact contact: inside the library's tolerance band")
            return case.finish()
        truth = O.polygon_region_subset(rb, ra)
        source = "exact decision"
        if expected is not None and truth != expected and not (G.spec_num(sa) == "int"):
            case.unsure("construction and exact decision disagree (generator rounding): not judged")
            return case.finish()
    elif expected is not None:
        truth = expected
        source = "construction: " + how
        delta = Fr(max(1e-5, 1e-5 * L))
        w = sample_witness(rng, rb, ra, delta)
        if w is not None and truth:
            case.unsure("construction says subset but a witness point exists: generator error")
            return case.finish()
        if w is None and not truth and curves and rb[0] not in ("empty", "whole") and ra[0] not in ("empty", "whole"):
            case.count("truth:no-witness-found-for-constructed-false")
    else:
        case.unsure("truth not decidable for this pair")
        return case.finish()
    # ---- the library's answer -------------------------------------------------------------
    guard = P.BigNumGuard()
    guard.install()
    try:
        got, exc = P.guarded_call(lambda: B in A)
    finally:
        guard.remove()
    case.count("subset:judged")
    case.judged()
    defined = hasattr(A, "jordans") and hasattr(B, "jordans")
    case.nontrivial = defined
    if exc is not None:
        case.violate("`B in A` raised %s (%s; %s)" % (exc_text(exc), how, cls["class"]))
        return case.finish()
    if not isinstance(got, (bool,)) and type(got).__name__ != "bool_":
        case.violate("`B in A` returns %s" % type(got).__name__)
    if bool(got) != truth:
        case.violate("`B in A` is %r, the region B %s a subset of A (%s; %s; boundaries %s)" % (
            got, "is" if truth else "is not", source, how, cls["class"]), kinds=[rb[0], ra[0]])
        return case.finish()
    # ---- closed curve of B against A, both flags, when the construction separates them clearly ------
    if mode == "constructed" and defined and expected is not None and not cls["contact"] and cls["class"] == "apart" and \
            len(B.jordans) == 1 and any(k in how for k in ("contracted", "dilated", "far away", "tight", "rectangle")):
        J = B.jordans[0]
        for flag in (True, False):
            r, exc = call(A.contains_jordan, J, flag)
            case.count("subset:curve-judged")
            if exc is not None:
                case.violate("contains_jordan(J, boundary=%r) raised %s (%s)" % (flag, exc_text(exc), how))
            elif bool(r) != truth:
                case.violate("contains_jordan(J, boundary=%r) is %r for the boundary J of B; %s, boundaries apart" % (flag, r, how))
    # ---- reflexivity and consequences ---------------------------------------------------------
    for name, X in (("A", A), ("B", B)):
        r, exc = call(lambda: X in X)
        case.count("subset:reflexive-judged")
        if exc is not None or r is not True:
            case.tags["contact"] = True  # identical boundaries
            case.violate("`%s in %s` is %r" % (name, name, exc_text(exc) if exc else r))
    if got and defined and not cls["contact"]:
        A2, B2 = G.build(sa), G.build(sb)
        u, e1 = call(lambda: A2 | B2)
        A3, B3 = G.build(sa), G.build(sb)
        i, e2 = call(lambda: A3 & B3)
        case.count("subset:consequences-judged")
        tol = 0.0 if (polygonal and G.spec_num(sa) in ("int", "frac") and G.spec_num(sb) in ("int", "frac")) else 1e-9 * max(1.0, L)
        if e1 is not None or e2 is not None:
            case.violate("B in A holds but A|B / A&B raised %s" % exc_text(e1 or e2))
        else:
            ok1, why1 = O.same_region(ra, S.snap_shape(u), tol)
            ok2, why2 = O.same_region(rb, S.snap_shape(i), tol)
            if not ok1:
                case.violate("B in A holds but A|B is not A: %s" % why1)
            if not ok2:
                case.violate("B in A holds but A&B is not B: %s" % why2)
    return case.finish()


def curve_case(case, ctx, A, B, ra, rb, polygonal, cls, L):
    """closed curve J (first boundary of B) against the shape A, both flags"""
    rng = ctx.rng
    if not hasattr(B, "jordans") or not hasattr(A, "jordans"):
        case.unsure("no curve / no defined shape")
        return case.finish()
    if not polygonal:
        case.unsure("curved curve-in-shape pairs are covered by the constructed shapes")
        return case.finish()
    if cls.get("near") and not (cls.get("touch") or cls.get("overlap")):
        case.unsure("inside the tolerance band")
        return case.finish()
    jordan = B.jordans[0]
    curve = S.snap_curve(jordan)
    for flag in (True, False):
        truth = O.polygon_curve_in_region(curve, ra, closed=flag)
        got, exc = call(A.contains_jordan, jordan, flag)
        case.count("subset:judged")
        case.judged()
        if exc is not None:
            case.violate("contains_jordan(J, %r) raised %s" % (flag, exc_text(exc)))
        elif bool(got) != truth:
            case.violate("contains_jordan(J, boundary=%r) is %r; every point of J %s in the %s region (boundaries %s)" % (
                flag, got, "lies" if truth else "does not lie", "closed" if flag else "open", cls["class"]))
    got, exc = call(lambda: jordan in A)
    if exc is None and bool(got) != O.polygon_curve_in_region(curve, ra, closed=True):
        case.violate("`J in A` is %r, expected %r" % (got, not got))
    case.nontrivial = True
    return case.finish()
