"""C04 -- area and polynomial moments equal the true integrals over the region.

Reference-model monitor: every value of IntegrateShape.polynomial / area, float(S) and
IntegrateJordan.area / vertical on generated shapes is compared with the exact moment of the
shape's snapshot (Green's theorem in rational arithmetic).  Rational polygons must give the
exact rational; curved boundaries the exact area up to rounding and, where the documented
quadrature rule is not exact, an error no larger than that rule's own error.
"""
from __future__ import annotations

from fractions import Fraction as Fr

from vf import gen as G, oracle as O, snapshot as S
from vf.checks.common import Case, call, exc_text

ID = "C04"
TECHNIQUE = "runtime monitoring: reference-model monitor (exact Green moments, documented quadrature rule as one-sided bound)"
LEVEL = "exploration"
RULE = ("random shapes of all kinds (simple, connected with holes, disjoint, unbounded) off-centre so that no moment vanishes "
        "by symmetry: polygons int/Fraction/float (triangles, non-convex, rectilinear), n-arc circles, Bezier blobs of degree "
        "2-3, mixed chains x exponent pairs 0 <= a,b <= 4 (thorough 6); non-trivial = a shape with a boundary and >= 9 "
        "exponent pairs judged; distinct = distinct case specs")
ASSUMPTIONS = [
    "oracle: exact moments by Green's theorem, polynomial multiplication in the power basis",
    "rational polygons: exact equality and rational type while (vertex denominator) x (quadrature node denominator)^degree "
    "stays below 10**9 (K-cap above); floats: 1e-9 relative to the sum of the absolute segment contributions",
    "curved: equality up to rounding whenever the documented rule (open Newton-Cotes, 3+(a+1)+b+degree nodes) is exact, "
    "otherwise |got - exact| <= 1.05 * |rule - exact| + rounding, the rule being evaluated by the oracle with weights solved "
    "from the moment equations -- a more accurate implementation never alarms",
]
DECIDING_MONITORS = ("moment:judged",)
CASE_TIMEOUT = 240
SHARD_SIZE = 10


def budget(tier):
    return 200 if tier == "quick" else 3000


_WEIGHTS = {}


def open_newton_cotes(n):
    """weights of the rule with nodes (2i-1)/(2n), exact for degree <= n-1 (moment equations)"""
    if n in _WEIGHTS:
        return _WEIGHTS[n]
    nodes = [Fr(2 * i + 1, 2 * n) for i in range(n)]
    # solve sum_i w_i x_i^k = 1/(k+1)
    mat = [[x ** k for x in nodes] + [Fr(1, k + 1)] for k in range(n)]
    for col in range(n):
        piv = next(r for r in range(col, n) if mat[r][col] != 0)
        mat[col], mat[piv] = mat[piv], mat[col]
        pv = mat[col][col]
        mat[col] = [v / pv for v in mat[col]]
        for r in range(n):
            if r != col and mat[r][col] != 0:
                f = mat[r][col]
                mat[r] = [a - f * b for a, b in zip(mat[r], mat[col])]
    _WEIGHTS[n] = (nodes, [mat[r][n] for r in range(n)])
    return _WEIGHTS[n]


def rule_segment(ctrl, ex, ey):
    """the documented quadrature of int x^ex y^ey dy over one segment, in exact arithmetic"""
    deg = len(ctrl) - 1
    n = 3 + ex + ey + deg
    nodes, weights = open_newton_cotes(n)
    dctrl = O.derivative_ctrl(ctrl, 1)
    total = Fr(0)
    for t, w in zip(nodes, weights):
        p = O.evaluate(ctrl, t)
        d = O.evaluate(dctrl, t)
        total += w * p[0] ** ex * p[1] ** ey * d[1]
    return total


def rule_region(region, a, b):
    total = Fr(0)
    for c in O.region_curves(region):
        for ctrl in c:
            total += rule_segment(ctrl, a + 1, b)
    return total / (a + 1)


def abs_contributions(region, a, b):
    total = 0.0
    for c in O.region_curves(region):
        for ctrl in c:
            total += abs(float(O.seg_moment_dy(ctrl, a + 1, b)))
    return total / (a + 1)


def case(ctx):
    import shapepy
    from shapepy import IntegrateJordan, IntegrateShape

    rng = ctx.rng
    kind = rng.choice("SSSUCCDDV")
    curved = rng.random() < 0.4
    num = None if curved else rng.choice(["int", "frac", "float"])
    center = (rng.uniform(3, 30) * rng.choice([-1, 1]), rng.uniform(3, 30) * rng.choice([-1, 1]))
    if num == "int":
        center = (round(center[0]), round(center[1]))
    spec, info = G.random_shape(rng, kind, num, curved, center, rng.choice([1.0, 5.0, 10.0]))
    if kind in "SU" and curved and rng.random() < 0.5:
        spec, info = G.random_blob(rng, center, 8.0, degree=rng.choice([2, 3]), cw=(kind == "U"), mixed=rng.random() < 0.4)
    if kind in "SU" and curved and rng.random() < 0.12:
        spec, info = G.random_teardrop(rng, (round(center[0]), round(center[1])), 8.0, cw=(kind == "U"))
    bigden = False
    if spec["t"] == "poly" and spec["num"] in ("int", "frac") and rng.random() < 0.3:
        # large denominators: every coordinate perturbed by k/den (K-cap stratum)
        den = rng.choice([10007, 99991, 1000003])
        verts = [(G.exact(x) + Fr(rng.randint(-3, 3), den), G.exact(y) + Fr(rng.randint(-3, 3), den)) for x, y in spec["v"]]
        if G.valid_polygon(verts) or O.polygon_is_simple(G.poly_curve(verts)):
            spec = dict(spec, num="frac", v=[[str(x), str(y)] for x, y in verts])
            bigden = True
    case = Case(ctx, {"shape": spec}, "%s-%s%s" % (kind, "curved" if G.spec_is_curved(spec) else G.spec_num(spec), "-bigden" if bigden else ""))
    shape = G.build(spec)
    region = S.snap_shape(shape)
    curves = O.region_curves(region)
    rational = all(isinstance(v, (int, Fr)) for v in S.raw_numbers(shape)) and S.is_exact_region(region)
    maxdeg = max(len(seg) - 1 for c in curves for seg in c)
    maxden = max(max(p[0].denominator, p[1].denominator) for c in curves for seg in c for p in seg)
    emax = 4 if ctx.tier == "quick" else 6
    pairs = [(a, b) for a in range(emax + 1) for b in range(emax + 1)]
    rng.shuffle(pairs)
    pairs = [(0, 0), (1, 0), (0, 1)] + [p for p in pairs if p not in ((0, 0), (1, 0), (0, 1))][:(9 if curved else 14)]
    judged = 0
    for a, b in pairs:
        got, exc = call(IntegrateShape.polynomial, shape, a, b)
        case.count("moment:judged")
        case.judged()
        judged += 1
        if exc is not None:
            case.violate("IntegrateShape.polynomial(S, %d, %d) raised %s" % (a, b, exc_text(exc)))
            break
        want = O.region_moment(region, a, b)
        scale = abs_contributions(region, a, b)
        if rational:
            nodeden = 2 * (3 + a + 1 + b + 1)
            if not isinstance(got, (int, Fr)) or (isinstance(got, Fr) and not O.is_wellformed_fraction(got)):
                case.violate("moment (%d,%d) of a rational polygon is a %s (%r), not an exact rational" % (a, b, type(got).__name__, got))
                break
            if Fr(got) != want:
                if maxden * nodeden > 10 ** 9:
                    case.tags["cap_exceeded"] = True
                case.violate("moment (%d,%d) of a rational polygon is %s, the exact integral is %s (difference %.3g)" % (
                    a, b, got, want, float(Fr(got) - want)))
                break
            continue
        fgot = float(got)
        exact_rule = (a + b + 2) * maxdeg - 1 <= (3 + a + 1 + b + maxdeg) - 1
        rounding = 1e-9 * max(scale, 1e-300)
        if exact_rule or maxdeg == 1:
            if abs(fgot - float(want)) > rounding:
                case.violate("moment (%d,%d) is %r, the exact integral is %r (documented rule is exact here; sum of |contributions| %.3g)" % (
                    a, b, fgot, float(want), scale))
                break
        else:
            ref = rule_region(region, a, b)
            allowed = 1.05 * abs(float(ref - want)) + rounding
            case.count("moment:quadrature-bound-judged")
            if abs(fgot - float(want)) > allowed:
                case.violate("moment (%d,%d) is %r, exact %r: error %.3g exceeds the documented rule's own error %.3g" % (
                    a, b, fgot, float(want), abs(fgot - float(want)), abs(float(ref - want))))
                break
    # ---- area through the other entry points -------------------------------------------------
    if not case.violations:
        want = O.region_moment(region, 0, 0)
        scale = abs_contributions(region, 0, 0)
        for name, fn in (("float(S)", lambda: float(shape)), ("IntegrateShape.area(S)", lambda: IntegrateShape.area(shape))):
            got, exc = call(fn)
            case.count("area:judged")
            if exc is not None:
                case.violate("%s raised %s" % (name, exc_text(exc)))
            elif abs(float(got) - float(want)) > 1e-9 * max(scale, 1e-300):
                case.violate("%s = %r, the exact area is %r" % (name, float(got), float(want)))
        sign_want = want > 0
        if (float(shape) > 0) != sign_want:
            case.violate("sign of float(S) does not follow the bounded/unbounded convention")
        for k, jordan in enumerate(shape.jordans):
            c = S.snap_curve(jordan)
            for name, fn, w in (("IntegrateJordan.area", lambda: IntegrateJordan.area(jordan), O.signed_area(c)),
                                ("IntegrateJordan.vertical(1,1)", lambda: IntegrateJordan.vertical(jordan, 1, 1), sum((O.seg_moment_dy(s, 1, 1) for s in c), Fr(0)))):
                cdeg = max(len(s_) - 1 for s_ in c)
                if "vertical" in name and 3 * cdeg - 1 > (3 + 1 + 1 + cdeg) - 1:
                    continue  # the documented rule is not exact for this integrand: not promised
                got, exc = call(fn)
                case.count("jordan-integral:judged")
                sc = sum(abs(float(O.seg_moment_dy(s, 1, 0))) for s in c) if "area" in name else sum(abs(float(O.seg_moment_dy(s, 1, 1))) for s in c)
                if exc is not None:
                    case.violate("%s raised %s" % (name, exc_text(exc)))
                elif rational and Fr(got) != w and maxden * 12 <= 10 ** 9:
                    case.violate("%s of boundary %d is %s, exact %s" % (name, k, got, w))
                elif abs(float(got) - float(w)) > 1e-9 * max(sc, 1e-300):
                    case.violate("%s of boundary %d is %r, exact %r" % (name, k, float(got), float(w)))
    case.nontrivial = judged >= 9
    return case.finish()
