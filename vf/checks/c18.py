"""C18 -- segment calculus is exact: evaluation, derivative, split, box, point-on-curve, winding.

Reference-model monitor on PlanarCurve: every value returned by evaluation, derivate,
split, box, `in` and IntegratePlanar.winding_number for generated segments of degree 1..6
is compared with the exact oracle (de Casteljau in rationals, subdivision-based subtended
angle).  Degrees are visited in random order, each identity twice per process, and every
shard is a cold process, so a memo table holding a wrong matrix for one degree is seen.
"""
from __future__ import annotations

import math
from fractions import Fraction as Fr

from vf import gen as G, oracle as O, props as P, snapshot as S
from vf.checks.common import Case, call, exc_text

ID = "C18"
TECHNIQUE = "runtime monitoring: reference-model monitor (exact de Casteljau / subtended angle) on segment calculus, bignum resource guard"
LEVEL = "exploration"
RULE = ("random planar Bezier segments of degree 1..6 (int / Fraction / float control points, generic, monotone 'regular' "
        "ones, nearly straight ones, arches over an axis-parallel chord, segments that end where they start) x parameters (rational and float, ends included) x query points (on the "
        "curve, graded distances, far); each case visits all six degrees in random order, twice; non-trivial = all identities "
        "of at least one degree judged; distinct = distinct case specs")
ASSUMPTIONS = [
    "oracle: exact de Casteljau / power-basis derivative; exact values for rational data, 1e-12 relative for floats",
    "point-on-curve: points certified farther than 1e-5*max(1, size) must not be `in`; points segment(t) of regular "
    "segments (control polygon strictly monotone along a direction: no cusp, loop or self-crossing) must be `in`",
    "winding contribution compared with the continuous change of argument within 1e-9 for points at least 2.5e-6 (absolute) "
    "from the segment, grazing points a few 1e-6 off the curve included",
    "a Fraction parameter of more than 1e5 bits reaching BezierCurve.eval is reported as 'does not return in practice' "
    "(exact Newton iteration without denominator cap) -- a logical resource bound, not a wall-clock one",
]
DECIDING_MONITORS = ("eval:judged", "derivate:judged", "split:judged", "contains:judged", "winding:judged")
CASE_TIMEOUT = 120
SHARD_SIZE = 6


def budget(tier):
    return 120 if tier == "quick" else 2400


def random_ctrl(rng, degree, num, family):
    n = degree + 1
    size = rng.choice([1.0, 10.0, 100.0, 1000.0])

    def val(v):
        if num == "int":
            return Fr(round(v * 10))
        if num == "frac":
            return Fr(round(v * 12), rng.choice([1, 2, 3, 12]))
        return Fr(float(v))

    if family == "regular":
        # strictly monotone along a random direction
        ang = rng.uniform(0, math.tau)
        dx, dy = math.cos(ang), math.sin(ang)
        pts = []
        s = 0.0
        for i in range(n):
            s += rng.uniform(0.5, 1.5) * size / n
            off = rng.uniform(-0.4, 0.4) * size / n
            pts.append((val(s * dx - off * dy), val(s * dy + off * dx)))
        # verify monotonicity exactly after rounding
        prj = [float(p[0]) * dx + float(p[1]) * dy for p in pts]
        if all(b > a + 1e-9 * size for a, b in zip(prj[:-1], prj[1:])):
            return tuple(pts), (dx, dy)
        return None, None
    if family == "straightish":
        a = (rng.uniform(-size, size), rng.uniform(-size, size))
        b = (rng.uniform(-size, size), rng.uniform(-size, size))
        pts = []
        for i in range(n):
            t = i / (n - 1)
            eps = rng.uniform(-1e-3, 1e-3) * size if 0 < i < n - 1 else 0.0
            pts.append((val(a[0] + t * (b[0] - a[0]) + eps), val(a[1] + t * (b[1] - a[1]) - eps)))
        return tuple(pts), None
    if family == "axis-chord":
        # the chord is axis-parallel and is an edge of the control-point box (an arch)
        a0 = rng.uniform(-size, size)
        lo, hi = sorted((rng.uniform(-size, size), rng.uniform(-size, size)))
        if hi - lo < 0.2 * size:
            hi = lo + 0.5 * size
        pts = []
        horizontal = rng.random() < 0.5
        sign = rng.choice([-1, 1])
        for i in range(n):
            t = i / (n - 1)
            along = lo + t * (hi - lo)
            off = 0.0 if i in (0, n - 1) else sign * rng.uniform(0.2, 0.9) * size
            pts.append((val(along), val(a0 + off)) if horizontal else (val(a0 + off), val(along)))
        return tuple(pts), None
    pts = tuple((val(rng.uniform(-size, size)), val(rng.uniform(-size, size))) for _ in range(n))
    if family == "closed" and n >= 3:
        # the segment ends where it starts (a loop: teardrop for cubics); its chord has zero length
        pts = pts[:-1] + (pts[0],)
    return pts, None


def lib_segment(ctrl, num):
    import shapepy

    if num == "float":
        return shapepy.PlanarCurve([(float(p[0]), float(p[1])) for p in ctrl])
    if num == "int":
        return shapepy.PlanarCurve([(int(p[0]), int(p[1])) for p in ctrl])
    return shapepy.PlanarCurve([(p[0], p[1]) for p in ctrl])


def close_pt(got, want, scale, exact):
    g = (O.to_fr(got[0]), O.to_fr(got[1]))
    if exact:
        return g == want
    tol = 1e-12 * (1 + scale)
    return abs(float(g[0] - want[0])) <= tol and abs(float(g[1] - want[1])) <= tol


def judge_degree(case, rng, degree):
    import shapepy
    from shapepy import IntegratePlanar

    num = rng.choice(["int", "frac", "float", "float"])
    family = rng.choice(["generic", "generic", "regular", "regular", "straightish", "axis-chord", "closed"])
    ctrl, direction = random_ctrl(rng, degree, num, family)
    if ctrl is None or len(set(ctrl)) < 2:
        case.count("segment:rejected")
        return
    seg, exc = call(lib_segment, ctrl, num)
    if exc is not None:
        case.violate("PlanarCurve(%s) raised %s" % (ctrl, exc_text(exc)))
        return
    stored = S.snap_segment(seg)
    if stored != ctrl:
        case.violate("PlanarCurve stores other control points than given (degree %d, %s)" % (degree, num))
        return
    exact = num in ("int", "frac")
    scale = max(abs(float(v)) for p in ctrl for v in p)
    size = max(1.0, O.diameter(O.bbox(ctrl)))
    tag = "deg%d" % degree
    desc = {"degree": degree, "num": num, "family": family, "ctrl": [[str(p[0]), str(p[1])] for p in ctrl]}
    # ---- evaluation -------------------------------------------------------------------------
    params = [Fr(0), Fr(1), Fr(1, 2), Fr(rng.randint(1, 99), 100), Fr(rng.randint(1, 6), 7)]
    for t in params:
        lt = t if (exact or rng.random() < 0.5) else float(t)
        got, exc = call(seg, lt)
        case.count("eval:judged")
        case.judged()
        if exc is not None:
            case.violate("segment(%r) raised %s" % (lt, exc_text(exc)), **desc)
            return
        want = O.evaluate(ctrl, O.to_fr(lt))
        ex = exact and isinstance(lt, Fr)
        if not close_pt(got, want, scale, ex):
            case.violate("degree %d (%s): segment(%s) = %s, Bernstein sum = %s" % (
                degree, num, lt, got, S.fmt_point(want) if ex else S.fmt_point((float(want[0]), float(want[1])))), **desc)
            return
    many, exc = call(seg, tuple(params))
    if exc is not None or len(many) != len(params) or any(not close_pt(g, O.evaluate(ctrl, t), scale, exact) for g, t in zip(many, params)):
        case.violate("degree %d: evaluation of a tuple of parameters disagrees with single evaluations" % degree, **desc)
        return
    # ---- derivatives ---------------------------------------------------------------------------
    for k in range(1, degree + 2):
        d, exc = call(seg.derivate, k)
        case.count("derivate:judged")
        if exc is not None:
            case.violate("degree %d: derivate(%d) raised %s" % (degree, k, exc_text(exc)), **desc)
            return
        dctrl = O.derivative_ctrl(ctrl, k)
        for t in (Fr(0), Fr(1, 3), Fr(1)):
            got, exc = call(d, t)
            if exc is not None:
                case.violate("degree %d: derivate(%d)(%s) raised %s" % (degree, k, t, exc_text(exc)), **desc)
                return
            want = O.evaluate(dctrl, t)
            dscale = scale * math.factorial(degree) / max(1, math.factorial(max(degree - k, 0)))
            if not close_pt(got, want, dscale, exact):
                case.violate("degree %d (%s): derivate(%d) at %s is %s, the %d-th derivative is %s" % (
                    degree, num, k, t, got, k, S.fmt_point(want)), **desc)
                return
    # ---- split -------------------------------------------------------------------------------
    nodes = sorted({Fr(rng.randint(1, 19), 20) for _ in range(rng.randint(1, 3))})
    lnodes = [n if exact else float(n) for n in nodes]
    pieces, exc = call(seg.split, lnodes)
    case.count("split:judged")
    if exc is not None:
        case.violate("degree %d: split(%s) raised %s" % (degree, lnodes, exc_text(exc)), **desc)
        return
    knots = [Fr(0)] + nodes + [Fr(1)]
    if len(pieces) != len(knots) - 1:
        case.violate("degree %d: split at %d nodes gives %d pieces" % (degree, len(nodes), len(pieces)), **desc)
        return
    for j, piece in enumerate(pieces):
        t0, t1 = knots[j], knots[j + 1]
        for s_ in (Fr(0), Fr(1, 4), Fr(1, 2), Fr(3, 4), Fr(1)):
            got, exc = call(piece, s_ if exact else float(s_))
            want = O.evaluate(ctrl, t0 + s_ * (t1 - t0))
            if exc is not None or not close_pt(got, want, scale * 4, exact):
                case.violate("degree %d (%s): piece %d of split%s at s=%s is %s, segment(t_j + s*dt) = %s" % (
                    degree, num, j, [str(n) for n in nodes], s_, exc_text(exc) if exc else got,
                    S.fmt_point((float(want[0]), float(want[1])))), **desc)
                return
    # ---- box ---------------------------------------------------------------------------------
    box, exc = call(seg.box)
    case.count("box:judged")
    if exc is not None:
        case.violate("degree %d: box() raised %s" % (degree, exc_text(exc)), **desc)
        return
    lo, hi = (O.to_fr(box.lowpt[0]), O.to_fr(box.lowpt[1])), (O.to_fr(box.toppt[0]), O.to_fr(box.toppt[1]))
    slack = Fr(1e-12 * (1 + scale))
    for k in range(65):
        p = O.evaluate(ctrl, Fr(k, 64))
        if not (lo[0] - slack <= p[0] <= hi[0] + slack and lo[1] - slack <= p[1] <= hi[1] + slack):
            case.violate("degree %d: box() [%s, %s] does not contain segment(%d/64) = %s" % (
                degree, box.lowpt, box.toppt, k, S.fmt_point((float(p[0]), float(p[1])))), **desc)
            return
    # ---- point on curve -------------------------------------------------------------------------
    guard = P.BigNumGuard()
    guard.install()
    try:
        delta = 1e-5 * size
        curve1 = (ctrl,)
        for _ in range(6):
            t = Fr(rng.randint(0, 32), 32)
            p = O.evaluate(ctrl, t)
            d = O.evaluate(O.derivative_ctrl(ctrl, 1), t)
            norm = math.hypot(float(d[0]), float(d[1]))
            dist = rng.choice([2e-5, 1e-4, 1e-2, 0.3]) * size * rng.choice([-1, 1])
            if norm > 0:
                q = (p[0] - d[1] * Fr(dist / norm), p[1] + d[0] * Fr(dist / norm))
            else:
                q = (p[0] + Fr(dist), p[1])
            away = O.dist_point_curve(curve1, q, 1e-9 * size)
            lq = (float(q[0]), float(q[1]))
            if away >= delta:
                got, exc = P.guarded_call(lambda: lq in seg)
                case.count("contains:judged")
                if isinstance(exc, P.BigNumBlowup):
                    case.tags["ratnewton"] = True
                    case.violate("degree %d (%s control points): `point in segment` does not return in practice: %s" % (degree, num, exc), **desc)
                    return
                if exc is not None:
                    case.violate("degree %d: point in segment raised %s" % (degree, exc_text(exc)), **desc)
                    return
                if got:
                    case.violate("degree %d: a point %g away from the segment (tolerance 1e-6) is reported `in` it" % (degree, away),
                                 point=list(lq), **desc)
                    return
        if family == "regular" or degree == 1:
            for _ in range(6):
                t = Fr(rng.randint(0, 64), 64)
                p = O.evaluate(ctrl, t)
                lp = (p[0], p[1]) if (exact and rng.random() < 0.5) else (float(p[0]), float(p[1]))
                got, exc = P.guarded_call(lambda: lp in seg)
                case.count("contains:judged")
                if isinstance(exc, P.BigNumBlowup):
                    case.tags["ratnewton"] = True
                    case.violate("degree %d (%s control points): `segment(t) in segment` does not return in practice: %s" % (degree, num, exc), **desc)
                    return
                if exc is not None:
                    case.violate("degree %d: segment(t) in segment raised %s" % (degree, exc_text(exc)), **desc)
                    return
                if not got:
                    case.tags["regular_in"] = True
                    case.violate("degree %d (%s, regular segment): segment(%s) is not `in` the segment" % (degree, num, t), **desc)
                    return
    finally:
        guard.remove()
    # ---- winding contribution ----------------------------------------------------------------------
    for _ in range(6):
        c = (Fr(rng.uniform(-1.5, 1.5) * size + float(ctrl[0][0])), Fr(rng.uniform(-1.5, 1.5) * size + float(ctrl[0][1])))
        if rng.random() < 0.4:
            # inside the control polygon hull / between curve and chord
            t = Fr(rng.randint(1, 15), 16)
            p = O.evaluate(ctrl, t)
            m = ((ctrl[0][0] + ctrl[-1][0]) / 2, (ctrl[0][1] + ctrl[-1][1]) / 2)
            lam = Fr(rng.randint(1, 7), 8)
            c = (m[0] + lam * (p[0] - m[0]), m[1] + lam * (p[1] - m[1]))
        if rng.random() < 0.3 and len(ctrl) > 2:
            # grazing: a few 1e-6 (absolute) off the curve, on either side, anywhere along it
            den = rng.choice([61, 97, 1000, 2048 * 3])
            t = Fr(rng.randint(1, den - 1), den)
            p = O.evaluate(ctrl, t)
            d = O.evaluate(O.derivative_ctrl(ctrl, 1), t)
            norm = math.hypot(float(d[0]), float(d[1]))
            if norm > 0:
                k = Fr(rng.choice([3e-6, 6e-6, 2e-5, 1e-4]) * rng.choice([-1, 1]) / norm)
                c = (p[0] - d[1] * k, p[1] + d[0] * k)
        if family == "axis-chord" and rng.random() < 0.5:
            # a centre exactly on the chord line: between the end points or beyond them
            lam = Fr(rng.choice([1, 3, 5, 7, 11, -2]), 8)
            c = (ctrl[0][0] + lam * (ctrl[-1][0] - ctrl[0][0]), ctrl[0][1] + lam * (ctrl[-1][1] - ctrl[0][1]))
        if O.dist_point_curve((ctrl,), c, 1e-10) < 2.5e-6:
            continue
        try:
            want = O.subtended_angle(ctrl, c) / math.tau
        except O.TooClose:
            continue
        lc = (float(c[0]), float(c[1]))
        got, exc = call(IntegratePlanar.winding_number, seg, lc)
        case.count("winding:judged")
        if exc is not None:
            case.violate("degree %d: winding_number raised %s" % (degree, exc_text(exc)), **desc)
            return
        if abs(float(got) - want) > 1e-9:
            case.violate("degree %d (%s): winding contribution about %s is %r, the subtended angle / 2pi is %r" % (
                degree, family, lc, float(got), want), **desc)
            return
    case.count("degree:%d-complete" % degree)


def case(ctx):
    rng = ctx.rng
    case = Case(ctx, {"stream": "C18/%d/%d" % (ctx.seed, ctx.index)}, "segments")
    order = [1, 2, 3, 4, 5, 6] * 2
    rng.shuffle(order)
    for degree in order:
        judge_degree(case, rng, degree)
        if len(case.violations) >= 2:
            break
    case.nontrivial = any(k.startswith("degree:") for k in case.monitors)
    case.spec["judged"] = {k: v for k, v in case.monitors.items() if k.endswith("judged")}
    return case.finish()
