"""C16 -- primitive factories build the documented positive shapes or raise ValueError.

Every factory call of a seeded parameter stream is observed and compared with closed
forms computed independently (exact for rational parameters): vertices, orientation, area,
centre contained, far points not, radial band and closed-form area of the n-arc circle.
Invalid parameters must raise ValueError and nothing else.
"""
from __future__ import annotations

import math
from fractions import Fraction as Fr

from vf import oracle as O, snapshot as S
from vf.checks.common import Case, call, exc_text

ID = "C16"
TECHNIQUE = "runtime monitoring: factory calls compared with closed forms; exception-type monitor for invalid parameters"
LEVEL = "exploration"
RULE = ("seeded stream of parameter tuples for Primitive.square/triangle/regular_polygon/polygon/circle: sizes "
        "1e-3..1e4 (one in eight 1e4..3e9) as int/Fraction/float/numpy scalars, centres as tuple/list/Point2D of every numeric kind, "
        "nsides 3..400, ndivangle 4..300, plus invalid tuples (non-positive, nan, str, None, complex, nsides<3, bool/float nsides, "
        "ndivangle<4 or non-int, malformed centre); each case = 12 factory calls; non-trivial = a call whose "
        "result (or exception) was judged against the closed form; distinct = distinct parameter tuples")
ASSUMPTIONS = [
    "closed forms: square/triangle/regular polygon vertices, shoelace area, quadratic n-arc circle area "
    "n*[r^2 sin(t)/2 + (2/3) r^2 sin^3(t/2)/cos(t/2)] and radial band [r, r(cos(t/2)+sec(t/2))/2], t = 2pi/n",
    "float comparisons use 1e-9 relative to the size; rational parameters must give exact rational vertices for "
    "square, triangle and polygon",
    "inf and Decimal parameters are not generated: the statement makes them neither valid nor invalid",
]
DECIDING_MONITORS = ("factory:valid-judged", "factory:invalid-judged")
CASE_TIMEOUT = 60
SHARD_SIZE = 25


def budget(tier):
    return 200 if tier == "quick" else 3500


class Bad:
    def __float__(self):
        raise TypeError("no float")


def rand_size(rng):
    import numpy as np

    mag = 10 ** rng.uniform(-3, 4)
    if rng.random() < 0.12:
        mag = 10 ** rng.uniform(4, 9.5)  # large shapes: the factories have no absolute scale
    kind = rng.choice(["int", "frac", "float", "float", "np64", "np32int"])
    if kind == "int":
        return max(1, int(round(mag))), "int"
    if kind == "frac":
        return Fr(max(1, round(mag * 12)), rng.choice([1, 2, 3, 12, 1000])), "frac"
    if kind == "np64":
        return np.float64(mag), "float"
    if kind == "np32int":
        return np.int64(max(1, int(round(mag)))), "float"
    return mag, "float"


def rand_center(rng):
    import numpy as np
    import shapepy

    kind = rng.choice(["int", "frac", "float", "zero", "np"])
    if kind == "zero":
        c = (0, 0)
    elif kind == "int":
        c = (rng.randint(-50, 50), rng.randint(-50, 50))
    elif kind == "frac":
        c = (Fr(rng.randint(-99, 99), rng.choice([1, 2, 7])), Fr(rng.randint(-99, 99), rng.choice([1, 3, 10])))
    elif kind == "np":
        c = (np.float64(rng.uniform(-100, 100)), np.float64(rng.uniform(-100, 100)))
    else:
        c = (rng.uniform(-1000, 1000), rng.uniform(-1000, 1000))
    form = rng.choice(["tuple", "list", "point"])
    if form == "list":
        return list(c), kind
    if form == "point":
        return shapepy.Point2D(c[0], c[1]), kind
    return c, kind


def center_exact(c):
    return (O.to_fr(c[0]), O.to_fr(c[1]))


INVALID_SIZES = [0, -1, -2.5, Fr(-1, 3), float("nan"), "a", "1", None, 1j, [], (1, 2), Bad()]
INVALID_CENTERS = ["ab", "abc", None, (1, 2, 3), (1,), 5, ("a", 1), (1, None), [[1, 2], [3, 4]], (Bad(), 1)]


def close(a, b, scale, tol=1e-9):
    return abs(float(a) - float(b)) <= tol * max(1.0, abs(scale))


def judge_polygon(case, name, params, shape, want_verts, exact, size_scale):
    """shape must be a counter-clockwise SimpleShape with exactly the vertices want_verts"""
    import shapepy

    if not isinstance(shape, shapepy.SimpleShape):
        case.violate("%s%r returns %s, not a SimpleShape" % (name, params, type(shape).__name__))
        return None
    reg = S.snap_shape(shape)
    curve = reg[1]
    if not O.is_polygonal(curve):
        case.violate("%s%r has curved segments" % (name, params))
        return None
    got = O.polygon_vertices(curve)
    if len(got) != len(want_verts):
        case.violate("%s%r has %d vertices, expected %d" % (name, params, len(got), len(want_verts)))
        return None
    for g, w in zip(got, want_verts):
        if exact:
            if g != w:
                case.violate("%s%r: vertex %s, expected exactly %s" % (name, params, S.fmt_point(g), S.fmt_point(w)))
                return None
        elif not (close(g[0], w[0], size_scale) and close(g[1], w[1], size_scale)):
            case.violate("%s%r: vertex %s, expected %s" % (name, params, S.fmt_point((float(g[0]), float(g[1]))),
                                                              S.fmt_point((float(w[0]), float(w[1])))))
            return None
    if exact:
        raw = S.raw_numbers(shape)
        bad = [v for v in raw if not (isinstance(v, Fr) and O.is_wellformed_fraction(v))]
        if bad:
            case.violate("%s%r with rational parameters stores %s %r" % (name, params, type(bad[0]).__name__, bad[0]))
    return curve


def judge_common(case, name, params, shape, curve, area_want, center, size_scale, rng):
    """orientation, area, centre contained, far points not"""
    area = O.signed_area(curve)
    if area <= 0:
        case.violate("%s%r is not counter-clockwise (signed area %g)" % (name, params, float(area)))
        return
    if not close(area, area_want, float(area_want), 1e-9):
        case.violate("%s%r encloses area %r, closed form %r" % (name, params, float(area), float(area_want)))
    got, exc = call(float, shape)
    if exc is not None or not close(got, area_want, float(area_want), 1e-7):
        case.violate("float(%s%r) = %r, closed form %r" % (name, params, exc_text(exc) if exc else got, float(area_want)))
    cpt = (float(center[0]), float(center[1]))
    got, exc = call(lambda: cpt in shape)
    if exc is not None or got is not True:
        case.violate("%s%r does not contain its centre %r: %r" % (name, params, cpt, exc_text(exc) if exc else got))
    for _ in range(3):
        ang = rng.uniform(0, math.tau)
        r = size_scale * rng.choice([3.0, 10.0, 1e3, 1e6])
        far = (cpt[0] + r * math.cos(ang), cpt[1] + r * math.sin(ang))
        got, exc = call(lambda: far in shape)
        if exc is not None or got is not False:
            case.violate("%s%r contains the far point %r: %r" % (name, params, far, exc_text(exc) if exc else got))


def valid_call(case, rng):
    import shapepy

    P = shapepy.Primitive
    which = rng.choice(["square", "triangle", "regular", "polygon", "circle", "circle"])
    size, skind = rand_size(rng)
    center, ckind = rand_center(rng)
    cex = center_exact(tuple(center))
    exact = skind in ("int", "frac") and ckind in ("int", "frac", "zero")
    sz = O.to_fr(size)
    scale = float(sz) + abs(float(cex[0])) + abs(float(cex[1]))
    case.count("factory:valid-judged")
    case.judged()
    if which == "square":
        params = (size, center)
        shape, exc = call(lambda: P.square(side=size, center=center))
        if exc is not None:
            return case.violate("square%r raised %s" % (params, exc_text(exc)))
        h = sz / 2
        want = [(cex[0] + h, cex[1] + h), (cex[0] - h, cex[1] + h), (cex[0] - h, cex[1] - h), (cex[0] + h, cex[1] - h)]
        curve = judge_polygon(case, "square", params, shape, want, exact, scale)
        if curve is not None:
            judge_common(case, "square", params, shape, curve, sz * sz, cex, float(sz), rng)
    elif which == "triangle":
        params = (size, center)
        shape, exc = call(lambda: P.triangle(side=size, center=center))
        if exc is not None:
            return case.violate("triangle%r raised %s" % (params, exc_text(exc)))
        want = [cex, (cex[0] + sz, cex[1]), (cex[0], cex[1] + sz)]
        curve = judge_polygon(case, "triangle", params, shape, want, exact, scale)
        if curve is not None:
            inner = (cex[0] + sz / 4, cex[1] + sz / 4)
            judge_common(case, "triangle", params, shape, curve, sz * sz / 2, inner, float(sz), rng)
            got, exc = call(lambda: (float(cex[0]), float(cex[1])) in shape)
            if exc is not None or got is not True:
                case.violate("triangle%r: the right-angle vertex (its 'center') is not contained" % (params,))
    elif which == "regular":
        n = rng.choice([3, 4, 4, 5, 6, 7, 8, 12, 17, 40]) if rng.random() < 0.5 else rng.randint(3, 400)
        params = (n, size, center)
        shape, exc = call(lambda: P.regular_polygon(nsides=n, radius=size, center=center))
        if exc is not None:
            return case.violate("regular_polygon%r raised %s" % (params, exc_text(exc)))
        r = float(sz)
        want = [(Fr(float(cex[0]) + r * math.cos(math.tau * k / n)), Fr(float(cex[1]) + r * math.sin(math.tau * k / n)))
                for k in range(n)]
        curve = judge_polygon(case, "regular_polygon", params, shape, want, False, scale)
        if curve is not None:
            area = n * r * r * math.sin(math.tau / n) / 2
            judge_common(case, "regular_polygon", params, shape, curve, Fr(area), cex, r, rng)
    elif which == "polygon":
        n = rng.randint(3, 8)
        angs = sorted(rng.uniform(0, math.tau) for _ in range(n))
        if max(b - a for a, b in zip(angs, angs[1:] + [angs[0] + math.tau])) > 2.8:
            case.count("factory:polygon-skipped")
            return
        r = float(sz)
        if exact:
            verts = [(cex[0] + Fr(round(100 * math.cos(a)), 100) * sz, cex[1] + Fr(round(100 * math.sin(a)), 100) * sz) for a in angs]
        else:
            verts = [(Fr(float(cex[0]) + r * math.cos(a)), Fr(float(cex[1]) + r * math.sin(a))) for a in angs]
        if len(set(verts)) < n or not O.polygon_is_simple(tuple((verts[i], verts[(i + 1) % n]) for i in range(n))):
            case.count("factory:polygon-skipped")
            return
        cw = rng.random() < 0.5
        if cw:
            verts = verts[::-1]
        given = [(v[0], v[1]) if exact else (float(v[0]), float(v[1])) for v in verts]
        params = (given,)
        shape, exc = call(lambda: P.polygon(given))
        if exc is not None:
            return case.violate("polygon%r raised %s" % (params, exc_text(exc)))
        if not isinstance(shape, shapepy.SimpleShape):
            return case.violate("polygon returns %s" % type(shape).__name__)
        curve = S.snap_shape(shape)[1]
        got = O.polygon_vertices(curve) if O.is_polygonal(curve) else None
        if got != verts:
            return case.violate("polygon%r does not keep exactly the given vertices in the given order" % (params,),
                                got=[S.fmt_point(g) for g in (got or [])])
        area = O.signed_area(curve)
        inside_pt = (float(cex[0]), float(cex[1]))
        got_in, exc = call(lambda: inside_pt in shape)
        want_in = not cw
        if exc is not None or got_in is not want_in:
            case.violate("polygon%r (%s list): centre contained -> %r, expected %r" % (
                params, "clockwise" if cw else "counter-clockwise", exc_text(exc) if exc else got_in, want_in))
        farpt = (inside_pt[0] + 50 * r, inside_pt[1] + 31 * r)
        got_far, exc = call(lambda: farpt in shape)
        if exc is not None or got_far is not cw:
            case.violate("polygon%r (%s list): far point contained -> %r, expected %r" % (
                params, "clockwise" if cw else "counter-clockwise", exc_text(exc) if exc else got_far, cw))
        if (area > 0) == cw:
            case.violate("polygon%r orientation does not follow the list" % (params,))
    else:
        n = rng.choice([4, 4, 5, 6, 8, 12, 16, 16, 24, 32, 64]) if rng.random() < 0.7 else rng.randint(4, 300)
        params = (size, center, n)
        shape, exc = call(lambda: P.circle(radius=size, center=center, ndivangle=n))
        if exc is not None:
            return case.violate("circle%r raised %s" % (params, exc_text(exc)))
        if not isinstance(shape, shapepy.SimpleShape):
            return case.violate("circle returns %s" % type(shape).__name__)
        curve = S.snap_shape(shape)[1]
        r = float(sz)
        case.count("circle:segments-%s" % ("quadratic" if all(len(s_) == 3 for s_ in curve) else "other"))
        area_want = O.circle_arc_area(r, n)
        judge_common(case, "circle", params, shape, curve, Fr(area_want), cex, r, rng)
        if not (area_want <= math.pi * r * r * (1 + 1e-12) or n < 4):
            pass
        # area converges to pi r^2 from one side, monotonically in ndivangle
        a_next = O.circle_arc_area(r, n + 1)
        if abs(a_next - math.pi * r * r) > abs(area_want - math.pi * r * r):
            case.violate("closed-form area is not monotone in ndivangle (oracle inconsistency)")
        rmin, rmax = O.circle_band(r, n)
        c0 = (float(cex[0]), float(cex[1]))
        for seg in curve:
            for k in range(0, 9):
                p = O.evaluate(seg, Fr(k, 8))
                d = math.hypot(float(p[0]) - c0[0], float(p[1]) - c0[1])
                if d < rmin * (1 - 1e-9) - 1e-9 * scale or d > rmax * (1 + 1e-9) + 1e-9 * scale:
                    return case.violate("circle%r: boundary point at distance %r from the centre, band [%r, %r]" % (
                        params, d, rmin, rmax))
        # membership against the band through the library
        for _ in range(6):
            ang = rng.uniform(0, math.tau)
            for rr, want in ((rmin * (1 - 1e-3), True), (rmax * (1 + 1e-3), False)):
                p = (c0[0] + rr * math.cos(ang), c0[1] + rr * math.sin(ang))
                if 1e-3 * r < 2e-6:
                    continue
                got, exc = call(lambda: p in shape)
                if exc is not None or got is not want:
                    case.violate("circle%r: point at radius %.6g*r contained -> %r, expected %r" % (
                        params, rr / r, exc_text(exc) if exc else got, want))


def invalid_call(case, rng):
    import shapepy

    P = shapepy.Primitive
    which = rng.choice(["square", "triangle", "regular", "circle"])
    good_size = rng.choice([1, 2.5, Fr(3, 2)])
    good_center = rng.choice([(0, 0), (1.5, -2), (Fr(1, 2), 3)])
    mode = rng.choice(["size", "center", "count"])
    if which in ("square", "triangle") and mode == "count":
        mode = "size"
    if mode == "size":
        bad = rng.choice(INVALID_SIZES)
        if which == "square":
            fn, desc = (lambda: P.square(side=bad, center=good_center)), "square(side=%r)" % (bad,)
        elif which == "triangle":
            fn, desc = (lambda: P.triangle(side=bad, center=good_center)), "triangle(side=%r)" % (bad,)
        elif which == "regular":
            fn, desc = (lambda: P.regular_polygon(nsides=5, radius=bad, center=good_center)), "regular_polygon(5, radius=%r)" % (bad,)
        else:
            fn, desc = (lambda: P.circle(radius=bad, center=good_center)), "circle(radius=%r)" % (bad,)
    elif mode == "center":
        bad = rng.choice(INVALID_CENTERS)
        if which == "square":
            fn, desc = (lambda: P.square(side=good_size, center=bad)), "square(center=%r)" % (bad,)
        elif which == "triangle":
            fn, desc = (lambda: P.triangle(side=good_size, center=bad)), "triangle(center=%r)" % (bad,)
        elif which == "regular":
            fn, desc = (lambda: P.regular_polygon(nsides=5, radius=good_size, center=bad)), "regular_polygon(center=%r)" % (bad,)
        else:
            fn, desc = (lambda: P.circle(radius=good_size, center=bad)), "circle(center=%r)" % (bad,)
    else:
        if which == "regular":
            bad = rng.choice([2, 1, 0, -3, 3.0, 4.5, "5", None, True, Fr(5), [5]])
            fn, desc = (lambda: P.regular_polygon(nsides=bad, radius=good_size, center=good_center)), "regular_polygon(nsides=%r)" % (bad,)
        else:
            bad = rng.choice([3, 2, 0, -4, 8.0, 16.5, "8", None, True, Fr(8), [8]])
            fn, desc = (lambda: P.circle(radius=good_size, center=good_center, ndivangle=bad)), "circle(ndivangle=%r)" % (bad,)
    case.count("factory:invalid-judged")
    case.judged()
    try:
        res = fn()
    except ValueError:
        return
    except Exception as exc:
        return case.violate("%s raises %s instead of ValueError" % (desc, exc_text(exc)))
    case.violate("%s returns %s instead of raising ValueError" % (desc, type(res).__name__))


def case(ctx):
    rng = ctx.rng
    case = Case(ctx, {"stream": "C16/%d/%d" % (ctx.seed, ctx.index), "calls": 12}, "factories")
    for k in range(12):
        if rng.random() < 0.3:
            invalid_call(case, rng)
        else:
            valid_call(case, rng)
    case.nontrivial = case.decided > 0
    case.spec["judged"] = dict(case.monitors)
    return case.finish()
