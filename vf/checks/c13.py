"""C13 -- rational input gives exact rational output.

Contract monitors on the real functions (Point2D.__init__, Intersection.lines,
JordanCurve.split, JordanCurve.move/scale, IntegrateShape.polynomial) observe every call
a workload of rational polygon operations causes; results of operators are compared with
the exact crossings computed by the oracle.
"""
from __future__ import annotations

from fractions import Fraction as Fr

from vf import contracts, gen as G, model as M, oracle as O, snapshot as S
from vf.checks.common import Case, call, exc_text

ID = "C13"
TECHNIQUE = "runtime monitoring: contract monitors on Point2D.__init__, Intersection.lines, split, moments; exact crossing oracle; repository suite under contracts (thorough)"
LEVEL = "exploration"
RULE = ("random pairs of rational (int / Fraction / mixed) polygons of several families, small and large "
        "denominators; every operator, containment query, split, move/scale and moment on them under contract "
        "monitors; a case is non-trivial when the two boundaries cross (the operator creates new vertices) and at "
        "least one monitor judged a value; distinct = distinct case specs")
ASSUMPTIONS = [
    "oracle kernel (exact Fraction arithmetic) is correct",
    "only Python 3.12 (/venv) can import the library here; the 3.11 axis of the quantifier is not explored",
    "vertices created by an operator are compared with the exact crossing of two input edges; when the exact "
    "crossing or an intermediate product has a denominator above 10**9 the library may round (limit_denominator) "
    "and the comparison uses 1e-8 instead of equality",
]
DECIDING_MONITORS = ("operator-result:vertices-checked", "moment:checked")
CASE_TIMEOUT = 400
SHARD_SIZE = 20


def budget(tier):
    return 240 if tier == "quick" else 2000


CAP = 10 ** 9


def is_rational(v):
    return type(v) is int or isinstance(v, Fr)


def wellformed(v):
    if type(v) is int:
        return True
    return O.is_wellformed_fraction(v)


class Mon:
    def __init__(self, case):
        self.case = case
        self.m = contracts.Monitors()

    def install(self):
        import shapepy
        from shapepy import curve as crv, polygon as pol, shape as shp, jordancurve as jc

        case = self.case
        m = self.m

        # ---- every point the library creates ---------------------------------------
        def post_point(token, args, kwargs, result, exc):
            if exc is not None:
                return
            self_ = args[0]
            point = args[1:]
            if len(point) == 1 and isinstance(point[0], pol.Point2D):
                return
            try:
                x, y = point if len(point) == 2 else point[0]
            except Exception:
                return
            if not (is_rational(x) and is_rational(y)):
                return
            case.count("Point2D.__init__:rational-checked")
            case.judged()
            for inp, got, name in ((x, self_[0], "x"), (y, self_[1], "y")):
                if not isinstance(got, Fr) or not wellformed(got):
                    case.violate(
                        "malformed coordinate: Point2D(%r, %r) stores %s=%r (numerator %s, denominator %s)" % (
                            x, y, name, got, type(getattr(got, "_numerator", None)).__name__,
                            type(getattr(got, "_denominator", None)).__name__),
                        site="Point2D.__init__")
                    return
                want = Fr(inp)
                if want.denominator <= CAP:
                    if got != want:
                        case.violate("coordinate with denominator <= 10**9 not stored unchanged: %r -> %r" % (inp, got),
                                     site="Point2D.__init__")
                        return
                else:
                    if abs(got - want) > Fr(1, CAP):
                        case.violate("coordinate rounded by more than 1e-9: %r -> %r" % (inp, got), site="Point2D.__init__")
                        return

        m.attach_path(pol, "Point2D", "__init__", post=post_point, label="Point2D.__init__")

        # ---- crossing of two straight segments ---------------------------------------
        def post_lines(token, args, kwargs, result, exc):
            if exc is not None:
                return
            ca, cb = args[0], args[1]
            raw = [p[0] for p in ca.ctrlpoints] + [p[1] for p in ca.ctrlpoints]
            raw += [p[0] for p in cb.ctrlpoints] + [p[1] for p in cb.ctrlpoints]
            if not all(is_rational(v) and wellformed(v) for v in raw):
                return
            a = S.snap_segment(ca)
            b = S.snap_segment(cb)
            res = O.seg_seg(a[0], a[1], b[0], b[1])
            case.count("Intersection.lines:checked")
            case.judged()
            if len(result) == 0:
                if res[0] == "proper":
                    case.violate("Intersection.lines misses the proper crossing t=%s s=%s" % (res[1], res[2]))
                return
            t, s = result
            if not (is_rational(t) and is_rational(s) and wellformed(t) and wellformed(s)):
                case.violate("Intersection.lines returns non-rational parameters %r %r for rational lines" % (t, s))
                return
            if res[0] in ("proper", "touch"):
                if (Fr(t), Fr(s)) != (res[1], res[2]):
                    case.violate("Intersection.lines parameters (%s, %s) differ from exact (%s, %s)" % (t, s, res[1], res[2]))
            else:
                case.violate("Intersection.lines reports (%s, %s) where the oracle finds %s" % (t, s, res[0]))

        m.attach_path(crv, "Intersection", "lines", post=post_lines, label="Intersection.lines")

        # ---- what the segment-level intersection hands on (the parameters the curves are split at) ----
        def post_and(token, args, kwargs, result, exc):
            if exc is not None or not result:
                return
            ca, cb = args[0], args[1]
            try:
                if len(ca.ctrlpoints) != 2 or len(cb.ctrlpoints) != 2:
                    return
                raw = [v for c in (ca, cb) for p in c.ctrlpoints for v in (p[0], p[1])]
            except Exception:
                return
            if not all(is_rational(v) and wellformed(v) for v in raw):
                return
            a = S.snap_segment(ca)
            b = S.snap_segment(cb)
            res = O.seg_seg(a[0], a[1], b[0], b[1])
            if res[0] not in ("proper", "touch"):
                return
            case.count("PlanarCurve.__and__:checked")
            for pair in result:
                try:
                    t, s = pair
                except Exception:
                    continue
                if not (is_rational(t) and is_rational(s)):
                    case.violate("segment & segment gives non-rational parameters %r %r for rational straight segments" % (t, s))
                elif (Fr(t), Fr(s)) != (res[1], res[2]):
                    case.violate("segment & segment gives the parameters (%s, %s), the exact crossing is at (%s, %s)" % (t, s, res[1], res[2]))

        m.attach_path(crv, "PlanarCurve", "__and__", post=post_and, label="PlanarCurve.__and__")

        # ---- split of a rational polygon ---------------------------------------------
        def pre_split(args, kwargs):
            jordan = args[0]
            raw = S.raw_numbers(jordan)
            if not all(is_rational(v) and wellformed(v) for v in raw):
                return None
            nodes = args[2] if len(args) > 2 else kwargs.get("nodes")
            if not all(is_rational(v) for v in nodes):
                return None
            before = S.snap_curve(jordan)
            if not O.is_polygonal(before):
                return None
            maxden = max(max(p[0].denominator, p[1].denominator) for seg in before for p in seg)
            nodeden = max([Fr(v).denominator for v in nodes] or [1])
            return before, maxden * nodeden

        def post_split(token, args, kwargs, result, exc):
            if token is None or exc is not None:
                return
            before, bigden = token
            jordan = args[0]
            case.count("JordanCurve.split:rational-checked")
            case.judged()
            raw = S.raw_numbers(jordan)
            bad = [v for v in raw if not (isinstance(v, Fr) and wellformed(v))]
            if bad:
                case.violate("split of a rational polygon stores a non-rational coordinate %r" % (bad[0],))
                return
            after = S.snap_curve(jordan)
            if bigden <= CAP:
                if not O.same_polygon_exact(before, after):
                    case.violate("split of a rational polygon moved the curve",
                                 before=S.curve_to_json(before), after=S.curve_to_json(after))
            else:
                ok, why = O.same_curve(before, after, 1e-8)
                if not ok:
                    case.violate("split of a rational polygon moved the curve by more than 1e-8: " + why)

        m.attach_path(jc, "JordanCurve", "split", pre=pre_split, post=post_split, label="JordanCurve.split")
        self.mon = m

    def remove(self):
        self.m.detach_all()
        for v in self.m.take_violations():
            self.case.unsure("monitor error: %s" % v.get("tb", v["message"])[-400:])


def crossing_points(ca, cb):
    """Exact proper/touch crossing points between two polygonal curves"""
    pts = []
    con = O.polygon_pair_contacts(ca, cb)
    for i, j, t, s in con["proper"] + con["touch"]:
        pts.append(O.evaluate(ca[i], t))
    return pts, con


def case(ctx):
    if ctx.tier == "thorough" and ctx.index == 0:
        from vf.checks.common import suite_case

        return suite_case(ctx, ID)
    rng = ctx.rng
    big = rng.random() < 0.25
    numa = rng.choice(["int", "frac", "frac"])
    numb = rng.choice(["int", "frac", "frac"])
    size = 10.0
    ca_center = (0, 0)
    off = (rng.uniform(-8, 8), rng.uniform(-8, 8))
    if numa == "int" or numb == "int":
        off = (round(off[0]), round(off[1]))
    speca, infa = G.random_polygon(rng, numa, ca_center, size)
    specb, infb = G.random_polygon(rng, numb, off, size)
    if big:
        # large denominators: perturb every coordinate by k/10007 or k/99991
        den = rng.choice([10007, 99991, 1000003])
        for spec in (speca, specb):
            spec["num"] = "frac"
            spec["v"] = [[str(Fr(x) + Fr(rng.randint(-3, 3), den)), str(Fr(y) + Fr(rng.randint(-3, 3), den))]
                         for x, y in spec["v"]]
    tiny = (not big) and rng.random() < 0.15
    if tiny:
        # the same drawing in a unit 50000 .. 10**6 times larger: exact arithmetic must not care
        k = Fr(1, rng.choice([50000, 10 ** 6]))
        for spec_ in (speca, specb):
            spec_["num"] = "frac"
            spec_["v"] = [[str(Fr(x) * k), str(Fr(y) * k)] for x, y in spec_["v"]]
    spec = {"A": speca, "B": specb, "big": big, "tiny": tiny}
    stratum = "%s-%s%s%s" % (numa, numb, "-bigden" if big else "", "-tiny" if tiny else "")
    case = Case(ctx, spec, stratum)
    # the exact operands are read from the library objects right after construction (the
    # constructor itself rounds coordinates whose denominator exceeds 10**9, which C13 allows)
    given_a = G.spec_curves_exact(speca)[0]
    given_b = G.spec_curves_exact(specb)[0]
    if not (O.polygon_is_simple(given_a) and O.polygon_is_simple(given_b)):
        case.unsure("generated polygon invalid after perturbation")
        return case.finish()
    curve_a = S.snap_shape(G.build(speca))[1]
    curve_b = S.snap_shape(G.build(specb))[1]
    for given, stored in ((given_a, curve_a), (given_b, curve_b)):
        for sg, ss in zip(given, stored):
            for pg, ps in zip(sg, ss):
                for k in (0, 1):
                    case.count("constructor:coordinates-checked")
                    if pg[k].denominator <= CAP and pg[k] != ps[k]:
                        case.violate("constructor changed the coordinate %s to %s" % (pg[k], ps[k]))
                    elif abs(pg[k] - ps[k]) > Fr(1, CAP):
                        case.violate("constructor rounded the coordinate %s to %s" % (pg[k], ps[k]))
    if not (O.polygon_is_simple(curve_a) and O.polygon_is_simple(curve_b)):
        case.unsure("stored polygon invalid")
        return case.finish()
    cross, con = crossing_points(curve_a, curve_b)
    contact = bool(con["touch"] or con["overlap"])
    case.tags["contact"] = contact
    case.nontrivial = bool(con["proper"])
    input_verts = set(O.polygon_vertices(curve_a)) | set(O.polygon_vertices(curve_b))
    maxden_in = max(max(p[0].denominator, p[1].denominator) for p in input_verts)
    maxden_par = max([max(t.denominator, s_.denominator) for _, _, t, s_ in con["proper"] + con["touch"]] or [1])
    mon = Mon(case)
    mon.install()
    try:
        import shapepy

        for opname in ("or", "and", "sub", "xor"):
            A, B = G.build(speca), G.build(specb)
            res, exc = call(M.BINARY[opname], A, B)
            case.count("operator:%s" % opname)
            if exc is not None:
                case.count("operator-raised")
                ctx.log("operator", opname, "raised", exc_text(exc))
                continue
            for sh, nm in ((res, "result"), (A, "operand A"), (B, "operand B")):
                raw = S.raw_numbers(sh) if hasattr(sh, "jordans") else []
                bad = [v for v in raw if not (isinstance(v, Fr) and wellformed(v))]
                case.count("operator-result:types-checked", len(raw))
                if bad:
                    case.violate("%s of %s on rational polygons holds a non-rational coordinate %r (%s)" % (
                        nm, M.SYMBOL[opname], bad[0], type(bad[0]).__name__), operator=opname)
            if not hasattr(res, "jordans"):
                continue
            reg = S.snap_shape(res)
            for curve in O.region_curves(reg):
                for v in O.polygon_vertices(curve) if O.is_polygonal(curve) else []:
                    case.count("operator-result:vertices-checked")
                    case.judged()
                    if v in input_verts:
                        continue
                    if v in cross:
                        continue
                    near = [c for c in cross if abs(c[0] - v[0]) <= Fr(1, 10 ** 8) and abs(c[1] - v[1]) <= Fr(1, 10 ** 8)]
                    if near:
                        c = near[0]
                        exact_den = max(c[0].denominator, c[1].denominator)
                        if exact_den > CAP:
                            case.count("operator-result:vertices-rounded-by-cap")
                            continue
                        if maxden_in * maxden_par > CAP:
                            case.tags["cap_exceeded"] = True
                        case.violate("result vertex %s differs from the exact crossing %s (denominator %d <= 10**9)" % (
                            S.fmt_point(v), S.fmt_point(c), exact_den), operator=opname)
                        continue
                    if contact:
                        case.count("operator-result:vertices-unexplained-contact")
                        continue
                    case.violate("result vertex %s of A %s B is neither an input vertex nor a crossing of two input edges" % (
                        S.fmt_point(v), M.SYMBOL[opname]), operator=opname)
        # queries: moments of rational polygons are exact Fractions
        A = G.build(speca)
        for (ea, eb) in ((0, 0), (1, 0), (0, 1), (2, 0), (1, 1), (0, 2), (rng.randint(3, 7), rng.randint(0, 7)), (rng.randint(0, 5), rng.randint(3, 8))):
            val, exc = call(shapepy.IntegrateShape.polynomial, A, ea, eb)
            if exc is not None:
                case.count("moment-raised")
                continue
            case.count("moment:checked")
            case.judged()
            want = O.moment(curve_a, ea, eb)
            nodeden = 2 * (3 + ea + 1 + eb + 1)
            if not (is_rational(val) and wellformed(val)):
                case.violate("IntegrateShape.polynomial(%d,%d) of a rational polygon returns %s %r" % (
                    ea, eb, type(val).__name__, val))
            elif Fr(val) != want:
                if maxden_in * nodeden > CAP:
                    case.tags["cap_exceeded"] = True
                case.violate("IntegrateShape.polynomial(%d,%d) = %s differs from the exact moment %s" % (ea, eb, val, want))
        # move / scale keep rational coordinates exact
        A = G.build(speca)
        dx, dy = Fr(rng.randint(-50, 50), rng.choice([1, 2, 3, 7])), rng.randint(-9, 9)
        sx, sy = Fr(rng.randint(1, 9), rng.choice([1, 2, 5])), rng.randint(1, 4)
        _, exc = call(A.move, dx, dy)
        if exc is None:
            _, exc = call(A.scale, sx, sy)
        if exc is None:
            got = S.snap_shape(A)[1]
            raw = S.raw_numbers(A)
            want = tuple(tuple(((p[0] + dx) * sx, (p[1] + dy) * sy) for p in seg) for seg in curve_a)
            case.count("move-scale:checked")
            case.judged()
            bad = [v for v in raw if not (isinstance(v, Fr) and wellformed(v))]
            if bad:
                case.violate("move/scale with rational parameters stores %s %r" % (type(bad[0]).__name__, bad[0]))
            elif maxden_in * 35 <= CAP and got != want:
                case.violate("move(%s,%s).scale(%s,%s) is not the exact affine image" % (dx, dy, sx, sy),
                             got=S.curve_to_json(got), want=S.curve_to_json(want))
        else:
            case.count("move-scale-raised")
            ctx.log("move/scale raised", exc_text(exc))
        # containment queries must not choke on rational data
        A, B = G.build(speca), G.build(specb)
        for name, fn in (("B in A", lambda: B in A), ("A == B", lambda: A == B), ("p in A", lambda: (Fr(1, 3), Fr(1, 7)) in A)):
            _, exc = call(fn)
            case.count("query:%s" % name)
            if exc is not None and isinstance(exc, TypeError):
                case.violate("%s on rational polygons raises %s" % (name, exc_text(exc)))
    finally:
        mon.remove()
    case.merge_counts(mon.m.counts)
    return case.finish()
