"""C09 -- move / rotate / scale transform the region exactly as the affine map does.

State monitor along histories of in-place transformations: after every call the control
points of every boundary (holes and components included) are read back and compared with
the affine image of the values recorded before the call -- exactly, types included, for
move/scale on rational data; within 1e-12 relative for rotations.  Membership, area scaling,
degrees vs radians and the inverse history are checked against the same model.
"""
from __future__ import annotations

import copy as _copy
import math
from fractions import Fraction as Fr

from vf import gen as G, oracle as O, snapshot as S
from vf.checks.common import Case, call, exc_text

ID = "C09"
TECHNIQUE = "runtime monitoring: state monitor along transformation histories against the exact affine model"
LEVEL = "exploration"
RULE = ("random shapes of all kinds (simple, connected, disjoint, unbounded, curved, int/Fraction/float) x histories of "
        "1-8 in-place transformations: move (two numbers / tuple / Point2D / one of the shape's own vertex objects; amounts down to 1e-9), scale (positive factors 1e-3..1e3 as "
        "int/Fraction/float, isotropic and anisotropic), rotate (any angle, radians and degrees); after each step "
        "every control point is compared with the affine image; then the inverse history is applied; non-trivial = "
        "a history with at least one step on a shape with a boundary; distinct = distinct case specs")
ASSUMPTIONS = [
    "move/scale with int/Fraction parameters on rational data: exact equality and Fraction type; otherwise "
    "1e-12 * (1 + |coordinates|) per step (float rounding of one multiplication/addition chain)",
    "scale factors are positive (the property's domain); negative factors mirror the shape and are not generated",
    "move and scale store the exact result whatever its denominator (only constructors round to denominators <= 10**9), "
    "so histories with prime denominators up to 99991 must stay exact",
]
DECIDING_MONITORS = ("transform:points-compared",)
CASE_TIMEOUT = 120
SHARD_SIZE = 20


def budget(tier):
    return 300 if tier == "quick" else 6000


def rand_exact(rng, lo, hi, positive=False):
    kind = rng.choice(["int", "frac"])
    if kind == "int":
        v = rng.randint(int(lo), int(hi))
        if positive and v <= 0:
            v = 1
        return v
    den = rng.choice([2, 3, 4, 5, 10, 7, 11, 10007, 99991])
    v = Fr(rng.randint(int(lo * den), int(hi * den)), den)
    if positive and v <= 0:
        v = Fr(1, den)
    return v


def make_step(rng, exact_ok):
    import shapepy

    kind = rng.choice(["move", "move", "scale", "scale", "rotate"] if not exact_ok else ["move", "move", "scale", "scale", "rotate"])
    exact_params = exact_ok and rng.random() < 0.8
    if kind == "move":
        if exact_params:
            dx, dy = rand_exact(rng, -20, 20), rand_exact(rng, -20, 20)
        else:
            dx, dy = rng.uniform(-1e3, 1e3), rng.uniform(-1e3, 1e3)
        if rng.random() < 0.08:
            # a translation below the library's point tolerance (1e-9) is still a translation
            if exact_params:
                dx, dy = Fr(rng.choice([-1, 0, 1]), 10 ** 9), Fr(rng.choice([-1, 1]), 10 ** 9)
            else:
                dx, dy = rng.choice([-1, 0, 1]) * 2.0 ** -31, rng.choice([-1, 1]) * 2.0 ** -31
        form = rng.choice(["two", "tuple", "point"])
        if rng.random() < 0.12:
            # the translation vector is one of the shape's own vertex objects (a Point2D is a legitimate
            # vector); its value is resolved when the step is applied
            return {"op": "move", "dx": "0", "dy": "0", "form": "own", "vi": rng.randrange(10 ** 6), "exact": exact_params}
        return {"op": "move", "dx": G.num_to_str(dx), "dy": G.num_to_str(dy), "form": form, "exact": exact_params}
    if kind == "scale":
        if exact_params:
            sx = rand_exact(rng, 1, 6, positive=True)
            sy = sx if rng.random() < 0.5 else rand_exact(rng, 1, 6, positive=True)
            if rng.random() < 0.3:
                sx, sy = Fr(1) / Fr(sx), Fr(1) / Fr(sy)
        else:
            sx = 10 ** rng.uniform(-3, 3)
            sy = sx if rng.random() < 0.5 else 10 ** rng.uniform(-3, 3)
        return {"op": "scale", "sx": G.num_to_str(sx), "sy": G.num_to_str(sy), "exact": exact_params}
    ang = rng.uniform(-4 * math.pi, 4 * math.pi)
    if rng.random() < 0.2:
        ang = rng.choice([0.0, math.pi / 2, math.pi, -math.pi / 2, math.tau])
    degrees = rng.random() < 0.4
    if degrees:
        ang = math.degrees(ang)
        if rng.random() < 0.3:
            ang = float(round(ang))
        if rng.random() < 0.2:
            ang = int(round(ang))
    return {"op": "rotate", "angle": G.num_to_str(ang), "degrees": degrees, "exact": False}


def parse(s):
    if "/" in s:
        return Fr(s)
    if "." in s or "e" in s or "E" in s or "inf" in s or "nan" in s:
        return float(s)
    return int(s)


def own_vertex(shape, step):
    verts = [v for jordan in shape.jordans for v in jordan.vertices]
    return verts[step["vi"] % len(verts)]


def resolve_own(shape, step, exact):
    """fix the value of an `own` translation vector before the call (the model needs the value the
    vertex had when the call was made)"""
    x, y = S.raw_point(own_vertex(shape, step))
    step["dx"], step["dy"] = G.num_to_str(x), G.num_to_str(y)
    step["exact"] = bool(exact and isinstance(x, (int, Fr)) and isinstance(y, (int, Fr)))


def apply_lib(shape, step):
    import shapepy

    if step["op"] == "move":
        dx, dy = parse(step["dx"]), parse(step["dy"])
        if step["form"] == "two":
            return shape.move(dx, dy)
        if step["form"] == "tuple":
            return shape.move((dx, dy))
        if step["form"] == "own":
            return shape.move(own_vertex(shape, step))
        return shape.move(shapepy.Point2D(dx, dy))
    if step["op"] == "scale":
        return shape.scale(parse(step["sx"]), parse(step["sy"]))
    ang = parse(step["angle"])
    if step["degrees"]:
        return shape.rotate(ang, degrees=True)
    return shape.rotate(ang)


def apply_model_point(p, step, exact):
    """image of an exact point; returns exact Fractions (for rotation: the float result)"""
    if step["op"] == "move":
        dx, dy = parse(step["dx"]), parse(step["dy"])
        if exact:
            return (p[0] + Fr(dx), p[1] + Fr(dy))
        return (Fr(float(p[0]) + float(dx)), Fr(float(p[1]) + float(dy)))
    if step["op"] == "scale":
        sx, sy = parse(step["sx"]), parse(step["sy"])
        return (p[0] * O.to_fr(sx), p[1] * O.to_fr(sy))
    ang = float(parse(step["angle"]))
    if step["degrees"]:
        ang = ang * math.pi / 180
    c, s_ = math.cos(ang), math.sin(ang)
    x, y = float(p[0]), float(p[1])
    return (Fr(c * x - s_ * y), Fr(s_ * x + c * y))


def _rat(v):
    return isinstance(v, (int, Fr)) and not isinstance(v, bool)


def _isrational_value(v):
    return True


def map_region(region, fn):
    kind = region[0]
    if kind in ("empty", "whole"):
        return region
    if kind == "simple":
        return ("simple", tuple(tuple(fn(p) for p in seg) for seg in region[1]))
    return (kind, tuple(map_region(s, fn) for s in region[1]))


def flat_points(region):
    out = []
    for c in O.region_curves(region):
        for seg in c:
            out.extend(seg)
    return out


def model_final(original, applied, rational):
    """exact image of the original region under the applied steps (the same model as the
    per-step comparison, composed)"""
    region = original
    exact = rational
    for step in applied:
        step_exact = exact and step["exact"]
        region = map_region(region, lambda p, st=step, se=step_exact: apply_model_point(p, st, se))
        if not step_exact:
            exact = False
    return region


def inverse_step(step):
    if step["op"] == "move":
        dx, dy = parse(step["dx"]), parse(step["dy"])
        return {"op": "move", "dx": G.num_to_str(-dx), "dy": G.num_to_str(-dy), "form": step["form"] if step["form"] != "own" else "point", "exact": step["exact"]}
    if step["op"] == "scale":
        sx, sy = parse(step["sx"]), parse(step["sy"])
        if _rat(sx) and _rat(sy):
            return {"op": "scale", "sx": str(1 / Fr(sx)), "sy": str(1 / Fr(sy)), "exact": step["exact"]}
        return {"op": "scale", "sx": repr(1.0 / float(sx)), "sy": repr(1.0 / float(sy)), "exact": False}
    ang = parse(step["angle"])
    return {"op": "rotate", "angle": G.num_to_str(-ang), "degrees": step["degrees"], "exact": False}


def case(ctx):
    import shapepy

    rng = ctx.rng
    kind = rng.choice("SSCCDDUV")
    curved = rng.random() < 0.3
    num = None if curved else rng.choice(["int", "frac", "float"])
    spec, info = G.random_shape(rng, kind, num, curved, (rng.uniform(-10, 10), rng.uniform(-10, 10)) if num != "int" else
                                (rng.randint(-10, 10), rng.randint(-10, 10)), rng.choice([1.0, 10.0, 10.0, 100.0]))
    num = G.spec_num(spec)
    rational = num in ("int", "frac") and not G.spec_is_curved(spec)
    nsteps = rng.randint(1, 8)
    steps = [make_step(rng, rational) for _ in range(nsteps)]
    case = Case(ctx, {"shape": spec, "steps": steps}, "%s-%s" % (kind, "rational" if rational else ("curved" if curved else "float")))
    shape = G.build(spec)
    original = S.snap_shape(shape)
    twin = _copy.deepcopy(shape)
    model = original
    exact = rational
    nsub_before = S.structure(original)
    area0, exc = call(float, shape)
    det = Fr(1)
    applied = []
    isotropic_only = True
    for k, step in enumerate(steps):
        before = S.snap_shape(shape)
        if step.get("form") == "own":
            resolve_own(shape, step, exact)
            case.count("transform:own-vertex-vectors")
        ret, exc = call(apply_lib, shape, step)
        case.count("transform:calls")
        if exc is not None:
            case.violate("%s raised %s" % (step, exc_text(exc)), step=k)
            return case.finish()
        if ret is not shape:
            case.violate("%s does not return the same object" % step["op"], step=k)
        applied.append(step)
        step_exact = exact and step["exact"]
        expected = map_region(before, lambda p: apply_model_point(p, step, step_exact))
        after = S.snap_shape(shape)
        if S.structure(after) != nsub_before:
            case.violate("structure changed by %s" % step["op"], step=k)
            return case.finish()
        pe, pa = flat_points(expected), flat_points(after)
        if len(pe) != len(pa):
            case.violate("number of control points changed by %s" % step["op"], step=k)
            return case.finish()
        case.count("transform:points-compared", len(pe))
        case.judged()
        maxden = max([max(p[0].denominator, p[1].denominator) for p in pe] or [1])
        for i, (e, a) in enumerate(zip(pe, pa)):
            if step_exact:
                if e != a:
                    case.violate("%s with rational parameters: control point %d is %s, exact image %s" % (
                        step["op"], i, S.fmt_point(a), S.fmt_point(e)), step=k)
                    break
            else:
                tol = 1e-12 * (1 + abs(float(e[0])) + abs(float(e[1])))
                if step["op"] == "rotate":
                    tol *= 8
                if abs(float(e[0] - a[0])) > tol or abs(float(e[1] - a[1])) > tol:
                    case.violate("%s: control point %d is %s, affine image %s" % (
                        step["op"], i, S.fmt_point((float(a[0]), float(a[1]))), S.fmt_point((float(e[0]), float(e[1])))), step=k)
                    break
        if step_exact:
            raw = S.raw_numbers(shape)
            bad = [v for v in raw if not (isinstance(v, Fr) and O.is_wellformed_fraction(v))]
            if bad:
                case.violate("%s with rational parameters stores %s %r" % (step["op"], type(bad[0]).__name__, bad[0]), step=k)
        else:
            exact = False
        if step["op"] == "scale":
            sx, sy = O.to_fr(parse(step["sx"])), O.to_fr(parse(step["sy"]))
            det *= sx * sy
            if sx != sy:
                isotropic_only = False
        if case.violations:
            return case.finish()
    final = S.snap_shape(shape)
    # ---- area scales by |det T| ------------------------------------------------------------
    area1, exc = call(float, shape)
    if exc is not None:
        case.violate("float(shape) raised after the history: %s" % exc_text(exc))
    elif area0 is not None:
        want = float(area0) * float(det)
        case.count("transform:area-judged")
        # the boundary integral cancels: rounding is relative to the squared coordinates
        bigc = max([abs(float(v)) for p_ in flat_points(final) for v in p_] + [1e-300])
        npts = len(flat_points(final))
        if abs(area1 - want) > 1e-9 * abs(want) * (1 + len(steps)) + 1e-13 * bigc * bigc * npts:
            case.violate("area after the history is %r, expected |det T| * area = %r" % (area1, want))
    # ---- first and second moments transform accordingly ---------------------------------------
    # (compared with the exact moments of the model's image; only where the library's quadrature is
    # exact: straight and quadratic boundaries, order <= 2)
    maxdeg = max(len(seg) - 1 for c in O.region_curves(final) for seg in c)
    if maxdeg <= 2 and not case.violations:
        import shapepy as _sp

        for (a_, b_) in ((1, 0), (0, 1), (1, 1)):
            got, exc = call(_sp.IntegrateShape.polynomial, shape, a_, b_)
            want = O.region_moment(model_final(original, applied, rational), a_, b_)
            scale = sum(abs(float(O.seg_moment_dy(seg, a_ + 1, b_))) for c in O.region_curves(final) for seg in c) / (a_ + 1)
            case.count("transform:moments-judged")
            if exc is not None:
                case.violate("moment (%d,%d) after the history raised %s" % (a_, b_, exc_text(exc)))
            elif abs(float(got) - float(want)) > 1e-9 * max(scale, 1e-300) * (1 + len(steps)):
                case.violate("moment (%d,%d) after the history is %r, the affine image has %r" % (a_, b_, float(got), float(want)))
    # ---- membership: T(p) in T(S) iff p in S ---------------------------------------------
    curves0 = O.region_curves(original)
    box0 = O.curves_bbox(curves0)
    diam0 = max(O.diameter(box0), 1e-9)
    delta0 = Fr(max(1e-5, 1e-5 * diam0))
    curves1 = O.region_curves(final)
    diam1 = max(O.diameter(O.curves_bbox(curves1)), 1e-12)
    delta1 = Fr(max(1e-5, 1e-5 * diam1)) if not exact else Fr(2, 10 ** 6)
    pts = G.random_points(rng, box0, 10)
    for c in curves0[:3]:
        pts += G.near_boundary_points(rng, c, 3, [diam0 * 1e-2, diam0 * 1e-1])
    for p in pts:
        try:
            want = O.region_contains(original, p, delta0)
        except O.TooClose:
            continue
        q = p
        for step in applied:
            q = apply_model_point(q, step, exact and step["exact"])
        if not O.region_clear(final, q, delta1):
            case.count("membership:not-judged")
            continue
        lq = (float(q[0]), float(q[1])) if not exact else q
        got, exc = call(lambda: lq in shape)
        case.count("membership:judged")
        if exc is not None:
            case.violate("T(p) in T(S) raised %s" % exc_text(exc))
            break
        if bool(got) != want:
            case.violate("T(p) in T(S) is %r but p in S is %r (p = %s, T(p) = %s)" % (
                got, want, S.fmt_point((float(p[0]), float(p[1]))), S.fmt_point((float(q[0]), float(q[1])))))
            break
    # ---- degrees=True is the same as radians ------------------------------------------------
    ang = rng.uniform(-360, 360)
    s1, s2 = _copy.deepcopy(twin), _copy.deepcopy(twin)
    _, e1 = call(s1.rotate, ang, True)
    _, e2 = call(s2.rotate, math.radians(ang))
    if e1 is None and e2 is None:
        case.count("transform:degrees-judged")
        p1, p2 = flat_points(S.snap_shape(s1)), flat_points(S.snap_shape(s2))
        for a, b in zip(p1, p2):
            tol = 1e-11 * (1 + abs(float(a[0])) + abs(float(a[1])))
            if abs(float(a[0] - b[0])) > tol or abs(float(a[1] - b[1])) > tol:
                case.violate("rotate(%r, degrees=True) differs from rotate(radians): %s vs %s" % (
                    ang, S.fmt_point((float(a[0]), float(a[1]))), S.fmt_point((float(b[0]), float(b[1])))))
                break
    else:
        case.violate("rotate raised: %s" % exc_text(e1 or e2))
    # ---- the inverse history restores the original ------------------------------------------
    inv_ok = True
    for step in reversed(applied):
        _, exc = call(apply_lib, shape, inverse_step(step))
        if exc is not None:
            case.violate("inverse %s raised %s" % (step["op"], exc_text(exc)))
            inv_ok = False
            break
    if inv_ok:
        restored = S.snap_shape(shape)
        pr, po = flat_points(restored), flat_points(original)
        scale = max(1.0, diam0)
        # rounding grows with the largest intermediate coordinates
        big = max([abs(float(v)) for p in flat_points(final) for v in p] + [1.0])
        # the inverse vector of a move is a new Point2D built by the caller: the constructor rounds
        # denominators above 10**9 (only own-vertex vectors have them), the inverse is then not exact
        inv_exact = exact and all(O.to_fr(parse(st[k])).denominator <= 10 ** 9
                                  for st in applied if st["op"] == "move" for k in ("dx", "dy"))
        for a, b in zip(pr, po):
            if inv_exact:
                if a != b:
                    case.violate("inverse history with rational parameters does not restore %s exactly (got %s)" % (
                        S.fmt_point(b), S.fmt_point(a)))
                    break
            else:
                # rounding made at one step is amplified by every later (inverse) scale step, and
                # rotations mix the two axes: bound by the product of the per-step amplifications
                worst = 1.0
                for step in applied:
                    if step["op"] == "scale":
                        fx, fy = float(parse(step["sx"])), float(parse(step["sy"]))
                        worst *= max(fx, fy, 1 / fx, 1 / fy) if fx != fy else max(1.0, 1 / fx)
                tol = 1e-12 * (big + scale) * worst * (1 + 2 * len(applied))
                if abs(float(a[0] - b[0])) > tol or abs(float(a[1] - b[1])) > tol:
                    case.violate("inverse history does not restore %s (got %s, tolerance %g)" % (
                        S.fmt_point((float(b[0]), float(b[1]))), S.fmt_point((float(a[0]), float(a[1]))), tol))
                    break
        # library ==: only when the residual is far below the 1e-9 point tolerance
        resid = max([abs(float(a[0] - b[0])) + abs(float(a[1] - b[1])) for a, b in zip(pr, po)] or [0.0])
        if resid < 1e-11 and not (G.spec_is_curved(spec) and num in ("int", "frac")):
            got, exc = call(lambda: shape == twin)
            case.count("transform:inverse-eq-judged")
            if exc is not None:
                case.violate("restored == original raised %s" % exc_text(exc))
            elif got is not True:
                case.tags["eq_after_inverse"] = True
                case.violate("after the inverse history the shape is not == to a copy of the original (residual %g)" % resid)
    case.nontrivial = bool(applied)
    return case.finish()
