"""C01 -- boolean operators compute the set-theoretic result, point by point.

Reference-model monitor: every operand is shadowed by its exact snapshot taken at creation;
the result of each operator / nested program is compared, point by point, with the boolean
combination of the exact leaf memberships (no boolean operation on boundaries is needed on
the model side).  Query points are admitted only when the oracle certifies their clearance
from every leaf boundary.  The contact class of every operator application is decided by the
oracle *before* the library runs; exceptions and logical-step budget overruns are judged for
transversal (general position) operands only.
"""
from __future__ import annotations

from fractions import Fraction as Fr

from vf import faults, gen as G, model as M, opwork as W, oracle as O, props as P, snapshot as S
from vf.checks.common import Case, exc_text

ID = "C01"
TECHNIQUE = "runtime monitoring: reference-model (exact shadow model) monitor over operator and program executions, logical step budget"
LEVEL = "exploration"
RULE = ("random operand pairs over kinds {simple, connected, disjoint, unbounded simple, unbounded connected, Empty, Whole}^2, "
        "numeric kinds int/Fraction/float, degrees 1-3, placements far / nested / overlapping / close, all operator spellings "
        "| & - ^ + * ~ -x, and random programs of depth <= 3 over 2-4 leaves with leaf re-use; 30 certified query points per "
        "result (a third at graded small distances from leaf boundaries); non-trivial = the operand boundaries interact "
        "(cross or nest) and >= 10 points were judged; distinct = distinct case specs")
ASSUMPTIONS = [
    "oracle kernel: exact winding numbers on the leaf snapshots; model membership = boolean combination of leaf memberships",
    "rational polygons: points farther than 2e-6 from every leaf boundary are judged exactly; float/curved: points certified "
    ">= max(1e-5, 1e-5*diameter) away",
    "'always returns' is judged only for operand pairs classified transversal-only before the run (exact for polygons; for "
    "curved pairs: flattened curves cross at angles >= 8 degrees, >= 1e-4*L from junctions, and stay >= 2e-3*L apart elsewhere); "
    "a logical budget of 3e8 shapepy function entries (polygonal operands, 15x the largest legitimate operator observed; curved operands are bounded by the watchdog, which yields inconclusive) stands for 'hangs', and a Fraction parameter above 1e5 bits for "
    "'does not return in practice'",
]
DECIDING_MONITORS = ("membership:judged",)
CASE_TIMEOUT = 900
SHARD_SIZE = 6
STEP_BUDGET = 300_000_000         # polygons: the largest legitimate operator observed needs 1.9e7 (evidence: max_logical_steps_*)
STEP_BUDGET_CURVED = 2_000_000_000  # curved: one operator legitimately needs up to 1e8 entries; the watchdog acts first


def budget(tier):
    return 192 if tier == "quick" else 2400


STEPS = None


def setup(tier):
    global STEPS
    STEPS = faults.Steps()
    STEPS.start()


def teardown():
    if STEPS is not None:
        STEPS.stop()


def run_guarded(case, fn, budget=None):
    """runs a library computation under the logical step budget and the bignum guard;
    returns (result, failure) with failure in None | ('raised', exc) | ('budget', n) | ('bignum', exc)"""
    STEPS.reset(budget or STEP_BUDGET)
    guard = P.BigNumGuard()
    guard.install()
    try:
        res = fn()
        return res, None
    except faults.StepBudgetExceeded:
        return None, ("budget", STEPS.count)
    except P.BigNumBlowup as exc:
        return None, ("bignum", exc)
    except Exception as exc:
        from vf import worker

        if worker.ALARM["fired"]:
            raise worker.CaseTimeout()
        if STEPS.tripped:
            # the budget exception surfaced inside a numpy object loop and was wrapped
            return None, ("budget", STEPS.count)
        return None, ("raised", exc)
    finally:
        guard.remove()
        case.steps = max(case.steps, STEPS.count)
        STEPS.reset(None)


def judge_result(case, rng, result, expr, label, exact, delta, npoints=30):
    """membership of certified points: library vs model (and oracle on the result's boundary)"""
    import shapepy

    if not isinstance(result, shapepy.shape.BaseShape):
        case.violate("%s returns %s, not a shape" % (label, type(result).__name__), op=label)
        return 0
    pts, rejected = M.sample_points(rng, expr, npoints, delta,
                                    dists=[Fr(1, 10 ** 5), Fr(1, 1000), Fr(1, 10)] if exact else None,
                                    exact_grid=(rng.choice([1, 8, 1000]) if exact else None))
    case.count("points:rejected-too-close", rejected)
    result_reg = S.snap_shape(result)
    judged = 0
    for p in pts:
        try:
            want = M.contains(expr, p, delta)
        except O.TooClose:
            continue
        lp = p if exact else (float(p[0]), float(p[1]))
        try:
            got = lp in result
            got_open = result.contains_point(lp, False) if hasattr(result, "contains_point") else got
        except Exception as exc:
            case.violate("%s: membership query on the result raised %s" % (label, exc_text(exc)), op=label)
            return judged
        case.count("membership:judged")
        case.judged()
        judged += 1
        if bool(got) != want or bool(got_open) != want:
            try:
                on_boundary = O.region_contains(result_reg, p, delta)
                where = "the result's own boundary gives %r -> %s" % (on_boundary, "containment query" if on_boundary == want else "operator")
            except O.TooClose:
                where = "point is close to the result's boundary (which is then not part of the operand boundaries)"
            case.violate("%s: point %s -> library %r (open: %r), model %r; %s" % (
                label, S.fmt_point((float(p[0]), float(p[1]))), got, got_open, want, where),
                op=label, point=[str(p[0]), str(p[1])], result=S.region_to_json(result_reg))
            return judged
    return judged


def attribute_xor(case, sa, sb, ra, rb, exact, delta):
    """A ^ B is documented as (A - B) | (B - A): the operands of that internal union always
    touch (they share the crossing points and, when a boundary piece of one lies inside the
    other, whole pieces).  A wrong A ^ B is attributed to the contact mechanism only if the
    two differences are right at the witness point and the library's own union of them is
    wrong at it; otherwise the xor itself deviates and the violation stands."""
    why, witness = case.violations[-1]
    point = witness.get("point")
    if not point:
        return
    p = (Fr(point[0]), Fr(point[1]))
    lp = p if exact else (float(p[0]), float(p[1]))
    try:
        A, B = G.build(sa), G.build(sb)
        X = A - B
        A, B = G.build(sa), G.build(sb)
        Y = B - A
        in_a, in_b = O.region_contains(ra, p, delta), O.region_contains(rb, p, delta)
        x_ok = bool(lp in X) == (in_a and not in_b)
        y_ok = bool(lp in Y) == (in_b and not in_a)
        Z = X | Y
        z_ok = bool(lp in Z) == (in_a != in_b)
    except Exception as exc:
        case.count("xor-attribution:failed")
        return
    case.count("xor-attribution:done")
    if x_ok and y_ok and not z_ok:
        zc = W.pair_class(S.snap_shape(X), S.snap_shape(Y))
        if zc["contact"]:
            case.tags["contact"] = True
            case.tags["contact_inside_xor"] = True


def attribute_xor_raise(case, sa, sb):
    """A ^ B raised on transversal operands: attributed to the contact mechanism only if both
    differences can be computed and it is the library's own union of them -- whose operands the
    oracle classifies as touching -- that raises."""
    try:
        A, B = G.build(sa), G.build(sb)
        X = A - B
        A, B = G.build(sa), G.build(sb)
        Y = B - A
    except Exception:
        case.count("xor-attribution:differences-raise")
        return
    try:
        X | Y
        case.count("xor-attribution:union-returns")
        return
    except Exception:
        pass
    zc = W.pair_class(S.snap_shape(X), S.snap_shape(Y))
    case.count("xor-attribution:done")
    if zc["contact"]:
        case.tags["contact"] = True
        case.tags["contact_inside_xor"] = True


def case(ctx):
    rng = ctx.rng
    program_mode = ctx.index % 4 == 3
    if program_mode:
        return program_case(ctx)
    sa, sb, info = W.make_pair(rng, curved_prob=0.2)
    if rng.random() < 0.06:
        # exact rational operands with curved segments (exact Newton iterations inside the library)
        sa, _ = G.random_polygon(rng, "frac", (0, 0), 10.0)
        maker = rng.choice([G.random_blob, G.random_bulged_rect, G.random_lens])
        kw = {"num": "frac"}
        if maker is G.random_blob:
            kw.update(degree=rng.choice([2, 3]), mixed=False)
        sb, _ = maker(rng, (rng.randint(-6, 6), rng.randint(-6, 6)), 8.0, **kw)
        if rng.random() < 0.5:
            sa, sb = sb, sa
        info = {"ka": "S", "kb": "S", "placement": "rational-curved"}
    case = Case(ctx, {"A": sa, "B": sb, "kinds": info["ka"] + info["kb"]},
                "pair-%s" % (("curved-rational" if info.get("placement") == "rational-curved" else "curved") if (G.spec_is_curved(sa) or G.spec_is_curved(sb)) else G.spec_num(sa)))
    A0, B0 = G.build(sa), G.build(sb)
    ra, rb = S.snap_shape(A0), S.snap_shape(B0)
    cls = W.pair_class(ra, rb)
    case.tags.update(W.config_tags([ra, rb]))
    case.tags["contact"] = cls["contact"]
    case.spec["class"] = cls["class"]
    case.stratum += "-" + cls["class"]
    curves = O.region_curves(ra) + O.region_curves(rb)
    exact = bool(curves) and all(O.is_polygonal(c) for c in curves) and G.spec_num(sa) in ("int", "frac", "none") and G.spec_num(sb) in ("int", "frac", "none")
    L = max(O.diameter(O.curves_bbox(curves)), 1e-9) if curves else 1.0
    delta = Fr(2, 10 ** 6) if exact else Fr(max(1e-5, 1e-5 * L))
    curved = case.tags.get("curved")
    bud = STEP_BUDGET_CURVED if curved else STEP_BUDGET
    ops = ["or", "and", "sub", "xor", "add", "mul", "inv", "neg", "rsub"]
    rng.shuffle(ops)
    ops = ops[: (3 if curved else 6)]
    total = 0
    for op in ops:
        A, B = G.build(sa), G.build(sb)
        if op in ("inv", "neg"):
            which = rng.choice("AB")
            operand, reg = (A, ra) if which == "A" else (B, rb)
            expr = (op, M.leaf(reg))
            label = "%s%s" % (M.SYMBOL[op], which)
            result, fail = run_guarded(case, lambda: M.UNARY[op](operand), bud)
        elif op == "rsub":
            expr = ("sub", M.leaf(rb), M.leaf(ra))
            label = "B - A"
            result, fail = run_guarded(case, lambda: B - A, bud)
        else:
            expr = (op, M.leaf(ra), M.leaf(rb))
            label = "A %s B" % M.SYMBOL[op]
            result, fail = run_guarded(case, lambda: M.BINARY[op](A, B), bud)
        case.count("operator:%s" % op)
        if fail is not None:
            kind, detail = fail
            if cls["contact"] and op not in ("inv", "neg"):
                case.count("operator:failed-on-contact-operands")
                continue
            if kind == "raised":
                case.violate("%s raised %s for operands in general position (%s)" % (label, exc_text(detail), cls["class"]), op=label)
                if op == "xor":
                    attribute_xor_raise(case, sa, sb)
            elif kind == "budget":
                case.violate("%s did not return within %d shapepy function entries (operands in general position)" % (label, bud), op=label)
            else:
                case.tags["ratnewton"] = True
                case.violate("%s does not return in practice: %s" % (label, detail), op=label)
            continue
        nviol = len(case.violations)
        total += judge_result(case, rng, result, expr, label, exact, delta)
        if op == "xor" and len(case.violations) > nviol and not cls["contact"]:
            attribute_xor(case, sa, sb, ra, rb, exact, delta)
        if len(case.violations) >= 3:
            break
    case.nontrivial = total >= 10 and cls["class"] != "apart"
    if cls["class"] == "apart" and total >= 10:
        # nested operands interact through the containment short-cuts
        try:
            a_in_b = any(O.region_contains(rb, O.evaluate(c[0], Fr(1, 2)), 0) for c in O.region_curves(ra)[:1])
        except O.TooClose:
            a_in_b = False
        case.nontrivial = True if a_in_b else case.nontrivial
    return case.finish()


def program_case(ctx):
    rng = ctx.rng
    nleaves = rng.randint(2, 4)
    curved = rng.random() < 0.12
    num = None if curved else rng.choice(["int", "frac", "float"])
    specs = []
    size = 10.0
    for i in range(nleaves):
        kind = rng.choice("SSSSSCDUEW" if i else "SSSCDU")
        off = (rng.uniform(-9, 9), rng.uniform(-9, 9))
        if num == "int":
            off = (round(off[0] * 4), round(off[1] * 4))
        s, _ = G.random_shape(rng, kind, num, curved, off, size * rng.choice([0.5, 1.0]))
        specs.append(s)
    prog = W.random_program(rng, nleaves, rng.randint(2, 3))
    text = W.program_text(prog)
    case = Case(ctx, {"leaves": specs, "program": text}, "program-%s" % ("curved" if curved else num))
    leaves = [G.build(s) for s in specs]
    regions = [S.snap_shape(x) for x in leaves]
    expr = W.program_model(prog, regions)
    case.tags.update(W.config_tags(regions))
    case.tags["contact"] = False
    nodes = []

    def on_node(op, operands, node_text):
        if len(operands) == 2:
            cls = W.pair_class(S.snap_shape(operands[0]), S.snap_shape(operands[1]))
            nodes.append((node_text, cls["class"]))
            if cls["contact"]:
                case.tags["contact"] = True
            if op == "xor" and cls["class"] == "crossing":
                # the internal union (X - Y) | (Y - X) has touching operands by construction
                case.tags["contact"] = True
                case.tags["contact_inside_xor"] = True

    result, fail = run_guarded(case, lambda: W.eval_program(prog, leaves, on_node), STEP_BUDGET_CURVED if curved else 4 * STEP_BUDGET)
    case.spec["nodes"] = nodes
    case.count("program:evaluated")
    curves = [c for r in regions for c in O.region_curves(r)]
    exact = bool(curves) and all(O.is_polygonal(c) for c in curves) and num in ("int", "frac")
    L = max(O.diameter(O.curves_bbox(curves)), 1e-9) if curves else 1.0
    delta = Fr(2, 10 ** 6) if exact else Fr(max(1e-5, 1e-5 * L))
    if fail is not None:
        kind, detail = fail
        if case.tags["contact"]:
            case.count("program:failed-with-contact-inside")
            case.unsure("program %s failed at a node whose operands touch (%s): not judged" % (text, kind))
            return case.finish()
        if kind == "raised":
            case.violate("program %s: %s (every operator application had operands in general position)" % (text, detail), program=text)
        elif kind == "budget":
            case.violate("program %s did not return within the budget of shapepy function entries" % (text,), program=text)
        else:
            case.tags["ratnewton"] = True
            case.violate("program %s does not return in practice: %s" % (text, detail), program=text)
        return case.finish()
    total = judge_result(case, rng, result, expr, "program %s" % text, exact, delta, npoints=36)
    # leaves must still denote their regions (re-used leaf objects)
    for i, (leaf, reg) in enumerate(zip(leaves, regions)):
        after = S.snap_shape(leaf)
        if after != reg:
            ok, why = S.same_denotation(reg, after, 0.0 if exact else S.region_tol(reg, 1e-9))
            if not ok:
                case.violate("program %s changed its leaf L%d: %s" % (text, i, why), program=text)
    case.nontrivial = total >= 10 and any(c != "apart" for _, c in nodes)
    return case.finish()


def extra_coverage(records):
    """largest number of logical steps (shapepy function entries) one operator / program needed,
    per stratum family: the headroom of the polygon budget is read from here"""
    poly = [r.get("steps", 0) for r in records if "curved" not in (r.get("stratum") or "") and not (r.get("stratum") or "").startswith("program")]
    prog = [r.get("steps", 0) for r in records if (r.get("stratum") or "").startswith("program") and "curved" not in r.get("stratum")]
    curved = [r.get("steps", 0) for r in records if "curved" in (r.get("stratum") or "")]
    return {"max_logical_steps_polygon_pairs": max(poly or [0]), "max_logical_steps_polygon_programs": max(prog or [0]),
            "max_logical_steps_curved": max(curved or [0]), "step_budget_polygon_pairs": STEP_BUDGET,
            "step_budget_polygon_programs": 4 * STEP_BUDGET, "step_budget_curved": STEP_BUDGET_CURVED}
