"""C14 -- curve intersection reports exactly the crossings, with the documented encoding.

Post-conditions on the real JordanCurve.intersection / __and__ calls: ranges, the two
evaluations coincide (oracle de Casteljau), completeness against the oracle (exact edge
crossings for polygons; inside/outside status changes along both curves for curved ones),
operand swap symmetry, (None, None) only for identical segments, and each flag combination
equals the documented filter of the unfiltered result.
"""
from __future__ import annotations

from fractions import Fraction as Fr

from vf import gen as G, oracle as O, snapshot as S
from vf.checks.common import Case, call, exc_text

ID = "C14"
TECHNIQUE = "runtime monitoring: post-conditions on JordanCurve.intersection (external and internal calls), exact / status-change completeness oracle"
LEVEL = "exploration"
RULE = ("random pairs of closed curves: polygon x polygon (int/Fraction/float, exact oracle), polygon x curved, curved "
        "x curved (circles, Bezier blobs of degree 2-3, mixed chains), far / nested / crossing placements, plus curves "
        "sharing identical segments (a copy with some vertices moved) and identical curves; all four flag combinations, "
        "A & B and the swapped call; non-trivial = the boundaries meet (at least one crossing or one identical segment); "
        "distinct = distinct case specs")
ASSUMPTIONS = [
    "polygons: the oracle's exact segment-segment classification; exact equality of parameters for rational data in "
    "general position, 1e-9 for floats",
    "curved: a crossing is required wherever the inside/outside status (exact winding number, clearance-certified "
    "samples, 16 per segment) changes along either curve; a change spanning undecided samples or a junction accepts a "
    "reported crossing anywhere in the spanned parameter range; reported points must coincide within 1e-6*max(1, diameter)",
    "pairs whose boundaries touch without crossing are only judged for soundness (ranges, coincidence, flags, swap), "
    "not for completeness",
]
DECIDING_MONITORS = ("intersection:judged",)
CASE_TIMEOUT = 400
SHARD_SIZE = 8


def budget(tier):
    return 200 if tier == "quick" else 2400


def shared_variant(rng, spec):
    """a polygon sharing some edges with `spec` (vertices moved outwards/inwards elsewhere)"""
    import copy

    s2 = copy.deepcopy(spec)
    n = len(s2["v"])
    k = rng.randrange(n)
    num = s2["num"]
    cx = sum(G.exact(v[0]) for v in s2["v"]) / n
    cy = sum(G.exact(v[1]) for v in s2["v"]) / n
    for j in range(rng.randint(1, max(1, n // 2))):
        i = (k + j) % n
        x, y = G.exact(s2["v"][i][0]), G.exact(s2["v"][i][1])
        f = Fr(rng.choice([1, 3, 5]), 4) if rng.random() < 0.5 else Fr(rng.choice([5, 6, 7]), 4)
        nx, ny = cx + (x - cx) * f, cy + (y - cy) * f
        if num == "int":
            nx, ny = Fr(round(nx)), Fr(round(ny))
        s2["v"][i] = [G.num_to_str(float(nx)) if num == "float" else str(nx), G.num_to_str(float(ny)) if num == "float" else str(ny)]
    verts = [(G.exact(x), G.exact(y)) for x, y in s2["v"]]
    if len(set(verts)) == n and O.polygon_is_simple(G.poly_curve(verts)):
        return s2
    return None


def make_pair(rng):
    r = rng.random()
    size = rng.choice([1.0, 10.0, 10.0, 50.0])
    if r < 0.5:
        num = rng.choice(["int", "frac", "float"])
        a, _ = G.random_polygon(rng, num, (0, 0), size)
        place = rng.random()
        if place < 0.12:
            b = shared_variant(rng, a)
            if b is not None:
                return a, b, "poly-shared-%s" % num
        if place < 0.2:
            import copy

            b = copy.deepcopy(a)
            k = rng.randrange(1, len(b["v"]))
            b["v"] = b["v"][k:] + b["v"][:k]
            return a, b, "poly-identical-%s" % num
        d = size * rng.choice([0.3, 0.7, 1.0, 1.5, 4.0])
        off = (rng.uniform(-d, d), rng.uniform(-d, d))
        if num == "int":
            off = (round(off[0]) + (12 if size < 12 else 0) * 0, round(off[1]))
        numb = num if rng.random() < 0.8 else rng.choice(["int", "frac", "float"])
        if numb == "int":
            off = (round(off[0]), round(off[1]))
        b, _ = G.random_polygon(rng, numb, off, size * rng.choice([0.5, 1.0, 1.0]), cw=rng.random() < 0.3)
        if num != "float" and numb != "float" and rng.random() < 0.15:
            k = Fr(1, rng.choice([50000, 10 ** 6]))
            for sp in (a, b):
                sp["num"] = "frac"
                sp["v"] = [[str(Fr(x) * k), str(Fr(y) * k)] for x, y in sp["v"]]
            return a, b, "poly-rational-tiny"
        return a, b, "poly-%s-%s" % (num, numb)
    d = size * rng.choice([0.4, 0.8, 1.2, 3.0])
    off = (rng.uniform(-d, d), rng.uniform(-d, d))
    if r < 0.75:
        numa = rng.choice(["int", "float", "frac"])
        a, _ = G.random_polygon(rng, numa, (0, 0), size)
        if numa != "float" and rng.random() < 0.5:
            # rational polygon x curved segments with rational control points (exact Newton path)
            b, _ = G.random_blob(rng, (round(off[0]), round(off[1])), max(size, 4.0) * rng.choice([0.5, 1.0]), degree=rng.choice([2, 3]),
                                 cw=rng.random() < 0.3, mixed=False, num="frac")
            if rng.random() < 0.5:
                a, b = b, a
            return a, b, "poly-curved-rational"
        b, _ = G.random_simple(rng, None, True, off, size * rng.choice([0.5, 1.0]), cw=rng.random() < 0.3)
        if rng.random() < 0.5:
            a, b = b, a
        return a, b, "poly-curved"
    a, _ = G.random_simple(rng, None, True, (0, 0), size)
    if rng.random() < 0.1:
        import copy

        return a, copy.deepcopy(a), "curved-identical"
    b, _ = G.random_simple(rng, None, True, off, size * rng.choice([0.5, 1.0]), cw=rng.random() < 0.3)
    return a, b, "curved-curved"


def status_changes(case, ca, cb, per_segment, delta):
    """walks ca; returns list of (seg_lo, t_lo, seg_hi, t_hi) parameter spans of ca across
    which the inside/outside status with respect to cb changes"""
    samples = []
    for i, seg in enumerate(ca):
        for k in range(per_segment):
            t = Fr(2 * k + 1, 2 * per_segment)
            p = O.evaluate(seg, t)
            try:
                w = O.winding(cb, p, delta)
                samples.append((i, t, w != 0))
            except O.TooClose:
                samples.append((i, t, None))
    decided = [(i, t, s) for (i, t, s) in samples if s is not None]
    spans = []
    if len(decided) < 2:
        return spans, 0
    n = len(decided)
    for k in range(n):
        i0, t0, s0 = decided[k]
        i1, t1, s1 = decided[(k + 1) % n]
        if s0 != s1:
            spans.append((i0, t0, i1, t1))
    return spans, len(decided)


def span_has_crossing(span, reported, nseg, which, slack):
    """is there a reported crossing whose (segment, parameter) on curve `which` (0 = first
    curve of the call, 1 = second) lies inside the cyclic span?"""
    i0, t0, i1, t1 = span
    for entry in reported:
        if entry[2] is None:
            # identical segments: the boundaries coincide there, status is undefined
            seg = entry[which]
            u = None
        else:
            seg = entry[which]
            u = O.to_fr(entry[2 + which])
        if i0 == i1 and t0 < t1:
            if seg == i0 and (u is None or t0 - slack <= u <= t1 + slack):
                return True
            continue
        # span wraps over one or more junctions: from (i0, t0) forward to (i1, t1)
        k = i0
        inside = False
        while True:
            if k == i0 and seg == k and (u is None or u >= t0 - slack):
                inside = True
            elif k == i1 and seg == k and (u is None or u <= t1 + slack):
                inside = True
            elif k != i0 and k != i1 and seg == k:
                inside = True
            if k == i1:
                break
            k = (k + 1) % nseg
            if k == i0:
                break
        if inside:
            return True
    return False


def judge_entries(case, name, entries, ca, cb, tol, exact):
    """ranges and coincidence of the two evaluations"""
    if not isinstance(entries, tuple):
        case.violate("%s returns %s, not a tuple" % (name, type(entries).__name__))
        return False
    for e in entries:
        if not (isinstance(e, tuple) and len(e) == 4):
            case.violate("%s: malformed entry %r" % (name, e))
            return False
        a, b, u, v = e
        if not (isinstance(a, int) and isinstance(b, int) and 0 <= a < len(ca) and 0 <= b < len(cb)):
            case.violate("%s: segment indices out of range in %r" % (name, e))
            return False
        if (u is None) != (v is None):
            case.violate("%s: only one parameter is None in %r" % (name, e))
            return False
        if u is None:
            sa, sb = ca[a], cb[b]
            same = len(sa) == len(sb) and all(abs(float(p[0] - q[0])) <= 1e-9 and abs(float(p[1] - q[1])) <= 1e-9 for p, q in zip(sa, sb))
            rev = len(sa) == len(sb) and all(abs(float(p[0] - q[0])) <= 1e-9 and abs(float(p[1] - q[1])) <= 1e-9 for p, q in zip(sa, tuple(reversed(sb))))
            if not same:
                case.tags["false_identical"] = True
                case.violate("%s: (%d, %d, None, None) marks segments that are not identical%s" % (
                    name, a, b, " (they are each other's reverse)" if rev else ""), entry=list(map(str, e)))
                return False
            continue
        try:
            fu, fv = O.to_fr(u), O.to_fr(v)
        except Exception:
            case.violate("%s: non-numeric parameters in %r" % (name, e))
            return False
        if not (0 <= fu <= 1 and 0 <= fv <= 1):
            case.violate("%s: parameters out of [0, 1] in %r" % (name, e))
            return False
        p, q = O.evaluate(ca[a], fu), O.evaluate(cb[b], fv)
        if exact:
            if p != q:
                case.violate("%s: A.segments[%d](%s) = %s but B.segments[%d](%s) = %s (rational lines: must be equal)" % (
                    name, a, u, S.fmt_point(p), b, v, S.fmt_point(q)))
                return False
        elif abs(float(p[0] - q[0])) > tol or abs(float(p[1] - q[1])) > tol:
            case.violate("%s: A.segments[%d](%r) and B.segments[%d](%r) are %g apart" % (
                name, a, float(fu), b, float(fv), max(abs(float(p[0] - q[0])), abs(float(p[1] - q[1])))))
            return False
    return True


def internal_case(ctx):
    """the intersection calls that operators, containment tests and == make internally,
    observed by a post-condition on the real JordanCurve.intersection (soundness part:
    ranges, coincidence of the two evaluations, (None, None) only for identical segments)"""
    import shapepy
    from shapepy import jordancurve as jc

    from vf import contracts, model as M, opwork as W, props as P

    rng = ctx.rng
    sa, sb, info = W.make_pair(rng, curved_prob=0.25, kinds="SSSSCDUV")
    case = Case(ctx, {"A": sa, "B": sb, "mode": "internal"}, "internal-%s" % ("curved" if (G.spec_is_curved(sa) or G.spec_is_curved(sb)) else G.spec_num(sa)))
    mon = contracts.Monitors()
    seen = {"n": 0, "nonempty": 0}

    def post(token, args, kwargs, result, exc):
        if exc is not None:
            return
        ja, jb = args[0], args[1]
        ca, cb = S.snap_curve(ja), S.snap_curve(jb)
        L = max(1.0, O.diameter(O.curves_bbox([ca, cb])))
        rational = O.is_polygonal(ca) and O.is_polygonal(cb) and all(isinstance(v, (int, Fr)) for v in S.raw_numbers(ja) + S.raw_numbers(jb))
        case.count("intersection:judged")
        case.judged()
        seen["n"] += 1
        if len(result):
            seen["nonempty"] += 1
        judge_entries(case, "intersection (called internally)", result, ca, cb, 1e-6 * L, rational)

    mon.attach_path(jc, "JordanCurve", "intersection", post=post, label="JordanCurve.intersection")
    try:
        calls = [("or", lambda a, b: a | b), ("sub", lambda a, b: a - b), ("in", lambda a, b: b in a), ("eq", lambda a, b: a == b)]
        if G.spec_is_curved(sa) or G.spec_is_curved(sb):
            calls = rng.sample(calls, 2)
        for name, fn in calls:
            A, B = G.build(sa), G.build(sb)
            guard = P.BigNumGuard()
            guard.install()
            try:
                P.guarded_call(fn, A, B)
            finally:
                guard.remove()
            if case.violations:
                break
    finally:
        mon.detach_all()
    for v in mon.take_violations():
        case.unsure("monitor error: %s" % str(v.get("tb", v["message"]))[-300:])
    case.nontrivial = seen["nonempty"] > 0
    case.spec["intersection_calls"] = seen["n"]
    return case.finish()


def case(ctx):
    import shapepy

    if ctx.tier == "thorough" and ctx.index == 0:
        from vf.checks.common import suite_case

        return suite_case(ctx, ID)
    rng = ctx.rng
    if ctx.index % 6 == 5:
        return internal_case(ctx)
    speca, specb, stratum = make_pair(rng)
    case = Case(ctx, {"A": speca, "B": specb}, stratum)
    ja, jb = G.build(speca).jordans[0], G.build(specb).jordans[0]
    ca, cb = S.snap_curve(ja), S.snap_curve(jb)
    polygonal = O.is_polygonal(ca) and O.is_polygonal(cb)
    rational = polygonal and all(isinstance(v, (int, Fr)) for v in S.raw_numbers(ja) + S.raw_numbers(jb))
    L = max(1.0, O.diameter(O.curves_bbox([ca, cb])))
    tol = 1e-6 * L
    full, exc = call(ja.intersection, jb, True, True)
    case.count("intersection:judged")
    case.judged()
    if exc is not None:
        case.violate("A.intersection(B) raised %s" % exc_text(exc))
        return case.finish()
    if not judge_entries(case, "A.intersection(B)", full, ca, cb, tol, rational):
        return case.finish()
    if list(full) != sorted(set(full), key=lambda e: (e[0], e[1], (e[2] is not None), e[2] if e[2] is not None else 0, e[3] if e[3] is not None else 0)) and len(set(full)) != len(full):
        case.violate("A.intersection(B) lists an entry twice")
    case.nontrivial = len(full) > 0
    # ---- completeness ------------------------------------------------------------------
    if polygonal:
        con = O.polygon_pair_contacts(ca, cb)
        general = not con["touch"] and not con["overlap"]
        case.tags["contact"] = not general
        reported = {(a, b, O.to_fr(u), O.to_fr(v)) for a, b, u, v in full if u is not None}
        want = {(i, j, t, s) for i, j, t, s in con["proper"]}
        case.count("completeness:polygon-judged")
        if general:
            if rational:
                if reported != want:
                    missing = sorted(want - reported)[:3]
                    extra = sorted(reported - want)[:3]
                    case.violate("crossings of two rational polygons in general position: missing %s, unexpected %s" % (
                        [tuple(map(str, m)) for m in missing], [tuple(map(str, m)) for m in extra]))
            else:
                def close(x, y):
                    return x[0] == y[0] and x[1] == y[1] and abs(float(x[2] - y[2])) < 1e-9 and abs(float(x[3] - y[3])) < 1e-9
                for w in want:
                    if not any(close(w, r) for r in reported):
                        case.violate("missing crossing of segments %d and %d at parameters (%g, %g)" % (w[0], w[1], float(w[2]), float(w[3])))
                        break
                for r in reported:
                    if not any(close(w, r) for w in want):
                        case.violate("unexpected entry (%d, %d, %g, %g): these segments do not cross there" % (r[0], r[1], float(r[2]), float(r[3])))
                        break
            if len(want) % 2:
                case.violate("oracle inconsistency: odd number of proper crossings")
            if len(reported) % 2 and not case.violations:
                case.violate("odd number of crossings for two curves in general position")
        else:
            # every proper crossing must still be reported
            for w in want:
                if not any(r[0] == w[0] and r[1] == w[1] and abs(float(r[2] - w[2])) < 1e-9 for r in reported):
                    case.violate("missing proper crossing of segments %d and %d at parameters (%g, %g)" % (w[0], w[1], float(w[2]), float(w[3])))
                    break
    else:
        delta = Fr(1e-4 * L)
        slack = Fr(1, 64)
        for which, (c0, c1, n0) in enumerate(((ca, cb, len(ca)), (cb, ca, len(cb)))):
            spans, ndecided = status_changes(case, c0, c1, 16, delta)
            case.count("completeness:status-samples", ndecided)
            case.count("completeness:status-changes", len(spans))
            for span in spans:
                if not span_has_crossing(span, full, n0, which, slack):
                    case.tags["curved"] = True
                    case.violate("no crossing reported on curve %s between segment %d at %.4f and segment %d at %.4f although the "
                                 "inside/outside status changes there" % ("AB"[which], span[0], float(span[1]), span[2], float(span[3])),
                                 span=[span[0], str(span[1]), span[2], str(span[3])], reported=[list(map(str, e)) for e in full][:12])
                    break
            if case.violations:
                break
        if len(full) > 0:
            case.nontrivial = True
    # ---- swap ----------------------------------------------------------------------------
    swapped, exc = call(jb.intersection, ja, True, True)
    case.count("intersection:swap-judged")
    if exc is not None:
        case.violate("B.intersection(A) raised %s" % exc_text(exc))
    else:
        def norm(entries, swap):
            out = set()
            for a, b, u, v in entries:
                if swap:
                    a, b, u, v = b, a, v, u
                out.add((a, b, None if u is None else round(float(u), 7), None if v is None else round(float(v), 7)))
            return out
        s0, s1 = norm(full, False), norm(swapped, True)
        if rational:
            e0 = {(a, b, u, v) for a, b, u, v in full}
            e1 = {(b, a, v, u) for a, b, u, v in swapped}
            if e0 != e1:
                case.violate("swapping the operands does not swap the roles: %s vs %s" % (
                    sorted(map(str, e0 - e1))[:3], sorted(map(str, e1 - e0))[:3]))
        elif s0 != s1:
            # tolerate parameter differences up to 1e-6
            def close_in(e, pool):
                for f in pool:
                    if e[0] == f[0] and e[1] == f[1] and (e[2] is None) == (f[2] is None) and (
                            e[2] is None or (abs(e[2] - f[2]) < 2e-6 and abs(e[3] - f[3]) < 2e-6)):
                        return True
                return False
            miss = [e for e in s0 if not close_in(e, s1)] + [e for e in s1 if not close_in(e, s0)]
            if miss:
                case.violate("swapping the operands does not swap the roles of (a,u) and (b,v): unmatched %s" % (miss[:3],))
    # ---- flags ----------------------------------------------------------------------------
    ends = {(0, 0), (0, 1), (1, 0), (1, 1)}
    for eq_flag in (True, False):
        for end_flag in (True, False):
            got, exc = call(ja.intersection, jb, eq_flag, end_flag)
            case.count("intersection:flags-judged")
            if exc is not None:
                case.violate("intersection(equal_beziers=%r, end_points=%r) raised %s" % (eq_flag, end_flag, exc_text(exc)))
                continue
            want = []
            for a, b, u, v in full:
                if u is None:
                    if eq_flag:
                        want.append((a, b, u, v))
                    continue
                if not end_flag and (u, v) in ends:
                    continue
                want.append((a, b, u, v))
            if set(got) != set(want):
                case.violate("intersection(equal_beziers=%r, end_points=%r) is not the documented filter of the full result: "
                             "missing %s, unexpected %s" % (eq_flag, end_flag, sorted(map(str, set(want) - set(got)))[:3],
                                                             sorted(map(str, set(got) - set(want)))[:3]))
    got, exc = call(lambda: ja & jb)
    if exc is not None:
        case.violate("A & B raised %s" % exc_text(exc))
    else:
        want = [(a, b, u, v) for a, b, u, v in full if u is not None and (u, v) not in ends]
        if set(got) != set(want):
            case.violate("A & B is not intersection(equal_beziers=False, end_points=False)")
    # operands untouched
    if S.snap_curve(ja) != ca or S.snap_curve(jb) != cb:
        case.violate("intersection modified its operands")
    return case.finish()
