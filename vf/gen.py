"""Seeded stratified generators.  Everything is described by a JSON spec (numbers as
strings) from which `build` re-creates the library object."""
from __future__ import annotations

import math
from fractions import Fraction as Fr

from . import oracle as O

# ----------------------------------------------------------------------------------
# numbers  <->  spec strings
# ----------------------------------------------------------------------------------


def num_to_str(v):
    if isinstance(v, float):
        return repr(v)
    return str(v)


def str_to_num(s, num):
    """num: 'int' | 'frac' | 'float' | 'mixed' (as written)"""
    if num == "float":
        return float(Fr(s)) if "/" in s else float(s)
    if "/" in s:
        return Fr(s)
    if "." in s or "e" in s or "E" in s or "inf" in s or "nan" in s:
        return float(s)
    if num == "frac":
        return Fr(int(s))
    return int(s)


def exact(s) -> Fr:
    if "/" in s:
        return Fr(s)
    if "." in s or "e" in s or "E" in s:
        return Fr(float(s))
    return Fr(int(s))


# ----------------------------------------------------------------------------------
# building library objects from specs
# ----------------------------------------------------------------------------------


def build_curve(spec):
    """spec -> JordanCurve"""
    import shapepy

    t = spec["t"]
    num = spec.get("num", "mixed")
    if t == "poly":
        verts = [(str_to_num(x, num), str_to_num(y, num)) for x, y in spec["v"]]
        return shapepy.JordanCurve.from_vertices(verts)
    if t == "ctrl":
        segs = [[(str_to_num(x, num), str_to_num(y, num)) for x, y in seg] for seg in spec["segs"]]
        return shapepy.JordanCurve.from_ctrlpoints(segs)
    raise ValueError(t)


def build(spec):
    """spec -> library shape"""
    import shapepy

    t = spec["t"]
    if t in ("poly", "ctrl"):
        return shapepy.SimpleShape(build_curve(spec))
    if t == "circle":
        num = spec.get("num", "float")
        shape = shapepy.Primitive.circle(
            radius=str_to_num(spec["r"], num),
            center=(str_to_num(spec["c"][0], num), str_to_num(spec["c"][1], num)),
            ndivangle=int(spec["n"]),
        )
        if spec.get("cw"):
            shape.invert()
        return shape
    if t == "empty":
        return shapepy.EmptyShape()
    if t == "whole":
        return shapepy.WholeShape()
    if t == "connected":
        return shapepy.ConnectedShape([build(s) for s in spec["parts"]])
    if t == "disjoint":
        return shapepy.DisjointShape([build(s) for s in spec["parts"]])
    if t == "not":
        return ~build(spec["of"])
    raise ValueError(t)


def spec_kind(spec) -> str:
    return {"poly": "S", "ctrl": "S", "circle": "S", "empty": "E", "whole": "W",
            "connected": "C", "disjoint": "D"}.get(spec["t"], "?")


def spec_is_curved(spec) -> bool:
    t = spec["t"]
    if t == "circle":
        return True
    if t == "ctrl":
        return any(len(seg) > 2 for seg in spec["segs"])
    if t in ("connected", "disjoint"):
        return any(spec_is_curved(s) for s in spec["parts"])
    if t == "not":
        return spec_is_curved(spec["of"])
    return False


def spec_num(spec) -> str:
    t = spec["t"]
    if t in ("connected", "disjoint"):
        kinds = {spec_num(s) for s in spec["parts"]}
        return kinds.pop() if len(kinds) == 1 else "mixed"
    if t == "not":
        return spec_num(spec["of"])
    if t in ("empty", "whole"):
        return "none"
    return spec.get("num", "float")


# ----------------------------------------------------------------------------------
# exact polygons
# ----------------------------------------------------------------------------------


def poly_curve(verts):
    n = len(verts)
    return tuple((verts[i], verts[(i + 1) % n]) for i in range(n))


def valid_polygon(verts, ccw=None) -> bool:
    c = poly_curve(verts)
    if not O.polygon_is_simple(c):
        return False
    # no straight-through vertices (keeps canonical forms equal to the vertex list)
    n = len(verts)
    for i in range(n):
        a, b, d = verts[i - 1], verts[i], verts[(i + 1) % n]
        if (b[0] - a[0]) * (d[1] - b[1]) - (b[1] - a[1]) * (d[0] - b[0]) == 0:
            return False
    if ccw is not None:
        area = O.shoelace(verts)
        if (area > 0) != ccw:
            return False
    return True


def _snap_val(v: float, grid):
    """Round a float to the grid: grid=None keeps the float (as exact dyadic),
    grid=g gives k/g."""
    if grid is None:
        return Fr(v)
    return Fr(round(v * grid), grid)


def star_polygon(rng, n, center, rmin, rmax, grid):
    """Random star-shaped polygon about `center` (counter-clockwise).  Exact vertices."""
    for _ in range(50):
        base = rng.uniform(0, math.tau)
        gaps = [rng.uniform(0.6, 1.4) for _ in range(n)]
        tot = sum(gaps)
        ang = base
        verts = []
        for g in gaps:
            r = rng.uniform(rmin, rmax)
            verts.append((
                _snap_val(float(center[0]) + r * math.cos(ang), grid),
                _snap_val(float(center[1]) + r * math.sin(ang), grid),
            ))
            ang += math.tau * g / tot
        if len(set(verts)) == n and valid_polygon(verts, ccw=True):
            return verts
    return None


def convex_polygon(rng, n, center, radius, grid):
    for _ in range(50):
        base = rng.uniform(0, math.tau)
        gaps = [rng.uniform(0.7, 1.3) for _ in range(n)]
        tot = sum(gaps)
        ang = base
        verts = []
        for g in gaps:
            verts.append((
                _snap_val(float(center[0]) + radius * math.cos(ang), grid),
                _snap_val(float(center[1]) + radius * math.sin(ang), grid),
            ))
            ang += math.tau * g / tot
        if len(set(verts)) == n and valid_polygon(verts, ccw=True):
            # convexity: all turns positive
            ok = True
            for i in range(n):
                a, b, c = verts[i - 1], verts[i], verts[(i + 1) % n]
                if (b[0] - a[0]) * (c[1] - b[1]) - (b[1] - a[1]) * (c[0] - b[0]) <= 0:
                    ok = False
            if ok:
                return verts
    return None


RECT_TEMPLATES = {
    "rect": [(0, 0), (4, 0), (4, 3), (0, 3)],
    "L": [(0, 0), (4, 0), (4, 1), (1, 1), (1, 4), (0, 4)],
    "U": [(0, 0), (5, 0), (5, 4), (4, 4), (4, 1), (1, 1), (1, 4), (0, 4)],
    "T": [(0, 3), (0, 4), (5, 4), (5, 3), (3, 3), (3, 0), (2, 0), (2, 3)],
    "notch": [(0, 0), (6, 0), (6, 5), (4, 5), (4, 2), (2, 2), (2, 5), (0, 5)],
    "comb": [(0, 0), (7, 0), (7, 4), (6, 4), (6, 1), (5, 1), (5, 4), (4, 4), (4, 1), (3, 1), (3, 4), (2, 4),
             (2, 1), (1, 1), (1, 4), (0, 4)],
    "Z": [(0, 0), (3, 0), (3, 2), (5, 2), (5, 3), (2, 3), (2, 1), (0, 1)],
}


def rectilinear(rng, center, size, grid):
    name = rng.choice(sorted(RECT_TEMPLATES))
    tpl = RECT_TEMPLATES[name]
    # random monotone re-spacing of the grid lines keeps the shape simple
    xs = sorted({p[0] for p in tpl})
    ys = sorted({p[1] for p in tpl})

    def spacing(vals):
        pos = [0.0]
        for _ in vals[1:]:
            pos.append(pos[-1] + rng.uniform(0.5, 1.5))
        return {v: p / pos[-1] for v, p in zip(vals, pos)}

    mx, my = spacing(xs), spacing(ys)
    aspect = rng.uniform(0.6, 1.0)
    verts = [(
        _snap_val(float(center[0]) + size * (mx[x] - 0.5), grid),
        _snap_val(float(center[1]) + size * aspect * (my[y] - 0.5), grid),
    ) for x, y in tpl]
    if rng.random() < 0.5:  # rotate by 90 degrees about the center
        cx, cy = _snap_val(float(center[0]), grid), _snap_val(float(center[1]), grid)
        verts = [(cx - (v[1] - cy), cy + (v[0] - cx)) for v in verts]
    if O.shoelace(verts) < 0:
        verts.reverse()
    if len(set(verts)) == len(verts) and O.polygon_is_simple(poly_curve(verts)):
        return verts, name
    return None, name


def poly_spec(verts, num, cw=False):
    verts = list(verts)
    if cw:
        verts = [verts[0]] + verts[:0:-1]
    if num == "float":
        v = [[repr(float(x)), repr(float(y))] for x, y in verts]
    elif num == "int":
        assert all(x.denominator == 1 and y.denominator == 1 for x, y in verts)
        v = [[str(int(x)), str(int(y))] for x, y in verts]
    else:
        v = [[str(x), str(y)] for x, y in verts]
    return {"t": "poly", "num": num, "v": v}


def grid_for(rng, num):
    if num == "int":
        return 1
    if num == "frac":
        return rng.choice([2, 4, 7, 12, 60, 1000])
    return None


def random_polygon(rng, num, center=(0, 0), size=10.0, family=None, cw=False):
    """Returns (spec, info) for a random simple polygon of the numeric kind `num`.
    For int the size is scaled up so that the grid is fine enough."""
    grid = grid_for(rng, num)
    if num == "int":
        size = max(size, 12.0)
    elif grid is not None and grid * size < 24:
        grid = int(math.ceil(24 / size))
    family = family or rng.choice(["star", "star", "convex", "rectilinear", "triangle"])
    for attempt in range(120):
        verts = None
        if attempt > 60:
            family = "triangle"
        if family == "star":
            n = rng.randint(4, 9)
            verts = star_polygon(rng, n, center, 0.4 * size, size, grid)
        elif family == "convex":
            n = rng.randint(3, 8)
            verts = convex_polygon(rng, n, center, size * rng.uniform(0.6, 1.0), grid)
        elif family == "triangle":
            verts = star_polygon(rng, 3, center, 0.5 * size, size, grid)
        elif family == "rectilinear":
            verts, _ = rectilinear(rng, center, 2 * size, grid)
        if verts is not None and valid_polygon(verts, ccw=True):
            return poly_spec(verts, num, cw), {"family": family, "n": len(verts)}
        family = rng.choice(["star", "convex", "triangle"])
    raise RuntimeError("could not generate a polygon")


# ----------------------------------------------------------------------------------
# curved boundaries: star-shaped blobs with angularly monotone control polygons
# ----------------------------------------------------------------------------------


def blob_segments(rng, nseg, degree, center, rmin, rmax, mixed=False, coincident=False, bulge=1.25):
    """Closed chain of Bezier segments, star-shaped about center by construction:
    every control polygon is angularly monotone inside its own sector (< 180 degrees),
    so by variation diminishing each ray from the center meets the curve once."""
    assert nseg >= 3
    base = rng.uniform(0, math.tau)
    gaps = [rng.uniform(0.7, 1.3) for _ in range(nseg)]
    tot = sum(gaps)
    angles = [base]
    for g in gaps:
        angles.append(angles[-1] + math.tau * g / tot)
    radii = [rng.uniform(rmin, rmax) for _ in range(nseg)]
    radii.append(radii[0])
    cx, cy = float(center[0]), float(center[1])

    def at(ang, r):
        return (cx + r * math.cos(ang), cy + r * math.sin(ang))

    junctions = [at(angles[i], radii[i]) for i in range(nseg)]
    junctions.append(junctions[0])
    segs = []
    for i in range(nseg):
        deg = degree if not mixed else rng.choice([1, 2, 3])
        a0, a1 = angles[i], angles[i + 1]
        pts = [junctions[i]]
        for k in range(1, deg):
            ang = a0 + (a1 - a0) * k / deg
            # keep inner control points outside the chord to have a bulge, bounded
            r = rng.uniform(0.9, bulge) * max(radii[i], radii[i + 1])
            pts.append(at(ang, r))
        pts.append(junctions[i + 1])
        if coincident and deg == 3 and rng.random() < 0.6:
            # a cubic with a double inner control point: two distinct objects with equal value
            pts[2] = pts[1]
        segs.append(pts)
    return segs


def ctrl_spec(segs, num="float", cw=False):
    segs = [list(s) for s in segs]
    if cw:
        segs = [list(reversed(s)) for s in reversed(segs)]
    if num == "float":
        out = [[[repr(float(x)), repr(float(y))] for x, y in seg] for seg in segs]
    else:
        out = [[[str(Fr(x)), str(Fr(y))] for x, y in seg] for seg in segs]
    return {"t": "ctrl", "num": num, "segs": out}


def random_teardrop(rng, center=(0, 0), size=10.0, cw=False, num="float"):
    """Closed curve made of ONE cubic segment that ends where it starts (P0 == P3).  With P1 - P0 and
    P2 - P0 linearly independent the loop is simple: B(t) - P0 = 3t(1-t)[(1-t)(P1-P0) + t(P2-P0)]."""
    cx, cy = float(center[0]), float(center[1])
    grid = 8

    def q(v):
        return Fr(round(v * grid), grid)

    ang = rng.uniform(0, math.tau)
    spread = rng.uniform(0.5, 2.2)
    la, lb = rng.uniform(1.0, 2.5) * size, rng.uniform(1.0, 2.5) * size
    p0 = (q(cx), q(cy))
    p1 = (q(cx + la * math.cos(ang)), q(cy + la * math.sin(ang)))
    p2 = (q(cx + lb * math.cos(ang + spread)), q(cy + lb * math.sin(ang + spread)))
    cross = (p1[0] - p0[0]) * (p2[1] - p0[1]) - (p1[1] - p0[1]) * (p2[0] - p0[0])
    if cross < 0:
        p1, p2 = p2, p1
    elif cross == 0:
        p2 = (p2[0] + Fr(size).limit_denominator(8) + 1, p2[1])
    return ctrl_spec([[p0, p1, p2, p0]], num, cw), {"family": "teardrop"}


def random_blob(rng, center=(0, 0), size=10.0, degree=None, cw=False, mixed=None, num="float"):
    degree = degree or rng.choice([2, 2, 3])
    mixed = rng.random() < 0.2 if mixed is None else mixed
    nseg = rng.randint(3, 7)
    coincident = rng.random() < 0.2
    segs = blob_segments(rng, nseg, degree, center, 0.55 * size, size, mixed, coincident)
    if num != "float":
        # rational control points on a grid (junctions stay shared because equal floats round equally)
        grid = max(8, int(math.ceil(64 / size)))
        segs = [[(Fr(round(x * grid), grid), Fr(round(y * grid), grid)) for x, y in seg] for seg in segs]
    return ctrl_spec(segs, num, cw), {"family": "blob", "degree": degree, "mixed": mixed, "n": nseg, "coincident": coincident}


def random_circle(rng, center=(0, 0), size=10.0, cw=False):
    n = rng.choice([4, 5, 6, 8, 12, 16, 16, 24])
    spec = {"t": "circle", "num": "float", "r": repr(float(size) * rng.uniform(0.5, 1.0)),
            "c": [repr(float(center[0])), repr(float(center[1]))], "n": n}
    if cw:
        spec["cw"] = True
    return spec, {"family": "circle", "n": n}


def random_bulged_rect(rng, center=(0, 0), size=10.0, cw=False, num="float"):
    """Axis-aligned rectangle some of whose sides are replaced by one quadratic or cubic arc
    bulging outwards (or slightly inwards): the chord of each arc is axis-parallel and is an
    edge of the arc's control-point box."""
    cx, cy = float(center[0]), float(center[1])
    w, h = size * rng.uniform(0.6, 1.0), size * rng.uniform(0.4, 1.0)
    grid = 8

    def q(v):
        return Fr(round(v * grid), grid)

    x0, x1, y0, y1 = q(cx - w), q(cx + w), q(cy - h), q(cy + h)
    corners = [(x0, y0), (x1, y0), (x1, y1), (x0, y1)]
    normals = [(0, -1), (1, 0), (0, 1), (-1, 0)]
    segs = []
    ncurved = 0
    for i in range(4):
        a, b = corners[i], corners[(i + 1) % 4]
        kind = rng.choice(["line", "quad", "quad", "cubic"])
        if i == 3 and ncurved == 0:
            kind = "quad"
        if kind == "line":
            segs.append([a, b])
            continue
        ncurved += 1
        side = abs(b[0] - a[0]) + abs(b[1] - a[1])
        depth = q(float(side) * (rng.uniform(0.15, 0.7) if rng.random() < 0.75 else -rng.uniform(0.05, 0.15)))
        nx, ny = normals[i]
        if kind == "quad":
            m = ((a[0] + b[0]) / 2 + nx * depth, (a[1] + b[1]) / 2 + ny * depth)
            segs.append([a, m, b])
        else:
            # equal offsets give an exactly degree-elevated quadratic (kept in 30 % of the cases)
            depth2 = depth if rng.random() < 0.3 else q(float(depth) * rng.uniform(0.5, 1.5))
            p1 = (a[0] + (b[0] - a[0]) / 3 + nx * depth, a[1] + (b[1] - a[1]) / 3 + ny * depth)
            p2 = (a[0] + 2 * (b[0] - a[0]) / 3 + nx * depth2, a[1] + 2 * (b[1] - a[1]) / 3 + ny * depth2)
            segs.append([a, p1, p2, b])
    return ctrl_spec(segs, num, cw), {"family": "bulged-rect"}


def random_lens(rng, center=(0, 0), size=10.0, cw=False, num="float"):
    """Closed curve with two segments only: a half disk (chord + arc) or a lens (two arcs)."""
    cx, cy = float(center[0]), float(center[1])
    grid = 8

    def q(v):
        return Fr(round(v * grid), grid)

    ang = rng.uniform(0, math.tau) if rng.random() < 0.6 else rng.choice([0.0, math.pi / 2])
    dx, dy = math.cos(ang) * size, math.sin(ang) * size
    a = (q(cx - dx), q(cy - dy))
    b = (q(cx + dx), q(cy + dy))
    nx, ny = -(b[1] - a[1]), (b[0] - a[0])   # left normal of a->b (length = chord length)

    def arc(p, r, depth, degree):
        # arc from p to r bulging to the right of p->r by depth * |pr|
        ex, ey = r[0] - p[0], r[1] - p[1]
        rx, ry = ey, -ex
        d = Fr(depth).limit_denominator(64)
        if degree == 2:
            return [p, ((p[0] + r[0]) / 2 + rx * d, (p[1] + r[1]) / 2 + ry * d), r]
        d2 = d if rng.random() < 0.3 else Fr(depth * rng.uniform(0.5, 1.5)).limit_denominator(64)
        return [p, (p[0] + ex / 3 + rx * d, p[1] + ey / 3 + ry * d), (p[0] + 2 * ex / 3 + rx * d2, p[1] + 2 * ey / 3 + ry * d2), r]

    lower = arc(a, b, rng.uniform(0.2, 0.6), rng.choice([2, 3]))          # bulges to the right of a->b
    if rng.random() < 0.5:
        upper = [b, a]                                                     # half disk
    else:
        upper = arc(b, a, rng.uniform(0.2, 0.6), rng.choice([2, 3]))       # lens
    return ctrl_spec([lower, upper], num, cw), {"family": "lens"}


def random_simple(rng, num=None, curved=None, center=(0, 0), size=10.0, cw=False):
    """A random SimpleShape spec.  num in int/frac/float; curved only with float."""
    if curved is None:
        curved = rng.random() < 0.3
    if curved:
        r = rng.random()
        if r < 0.4:
            return random_circle(rng, center, size, cw)
        if r < 0.8:
            return random_blob(rng, center, size, cw=cw)
        if r < 0.92:
            return random_bulged_rect(rng, center, size, cw)
        return random_lens(rng, center, size, cw)
    num = num or rng.choice(["int", "frac", "float"])
    return random_polygon(rng, num, center, size, cw=cw)


# ----------------------------------------------------------------------------------
# composite shapes (valid by construction; polygons re-validated exactly)
# ----------------------------------------------------------------------------------


def spec_curves_exact(spec):
    """Exact curves of a simple spec *as given* (only for poly / ctrl specs)"""
    t = spec["t"]
    if t == "poly":
        verts = [(exact(x), exact(y)) for x, y in spec["v"]]
        return [poly_curve(verts)]
    if t == "ctrl":
        return [tuple(tuple((exact(x), exact(y)) for x, y in seg) for seg in spec["segs"])]
    if t in ("connected", "disjoint"):
        out = []
        for s in spec["parts"]:
            out += spec_curves_exact(s)
        return out
    raise ValueError(t)


def random_connected(rng, num=None, curved=False, center=(0, 0), size=10.0, nholes=None, unbounded=False):
    """Outer region (or the whole plane when unbounded) minus 1..3 holes."""
    nholes = nholes or rng.randint(1, 3)
    num = num or rng.choice(["int", "frac", "float"])
    if curved:
        num = "float"
    scale = size
    if num == "int":
        scale = max(size, 130.0)
    cx, cy = float(center[0]), float(center[1])
    parts = []
    if not unbounded:
        # outer: star polygon with radii in [0.8, 1.0] * scale  (inradius >= 0.8*cos(pi/n) * scale)
        if curved and rng.random() < 0.5:
            outer = {"t": "circle", "num": "float", "r": repr(scale), "c": [repr(cx), repr(cy)],
                     "n": rng.choice([8, 12, 16])}
        else:
            grid = grid_for(rng, num)
            verts = None
            for _ in range(30):
                verts = star_polygon(rng, rng.randint(6, 9), (cx, cy), 0.85 * scale, scale, grid)
                if verts:
                    break
            if verts is None:
                for _ in range(30):
                    verts = convex_polygon(rng, rng.randint(5, 8), (cx, cy), 0.95 * scale, grid if (grid is None or grid * scale >= 48) else int(math.ceil(48 / scale)))
                    if verts:
                        break
            if verts is None:
                raise RuntimeError("outer")
            outer = poly_spec(verts, num)
        parts.append(outer)
        field = 0.45 * scale  # holes live in the disc of this radius
    else:
        field = scale
    # hole centres on a ring, well separated
    rho = field * (0.22 if nholes > 1 else 0.4)
    base = rng.uniform(0, math.tau)
    for k in range(nholes):
        ang = base + math.tau * k / nholes
        d = 0.0 if nholes == 1 else field * 0.6
        hc = (cx + d * math.cos(ang), cy + d * math.sin(ang))
        if curved and rng.random() < 0.6:
            if rng.random() < 0.5:
                hole, _ = random_circle(rng, hc, rho, cw=True)
            else:
                hole, _ = random_blob(rng, hc, rho, cw=True)
        else:
            if num == "int":
                hc = (round(hc[0]), round(hc[1]))
            hole, _ = random_polygon(rng, num, hc, rho,
                                     family=rng.choice(["star", "convex", "triangle"]), cw=True)
        parts.append(hole)
    spec = {"t": "connected", "parts": parts}
    return spec, {"family": "connected", "nholes": nholes, "unbounded": unbounded}


def random_disjoint(rng, num=None, curved=False, center=(0, 0), size=10.0, ncomp=None):
    ncomp = ncomp or rng.randint(2, 3)
    num = num or rng.choice(["int", "frac", "float"])
    if curved:
        num = "float"
    scale = size if num != "int" else max(size, 450.0)
    cx, cy = float(center[0]), float(center[1])
    parts = []
    base = rng.uniform(0, math.tau)
    rho = scale * 0.3
    for k in range(ncomp):
        ang = base + math.tau * k / ncomp
        d = scale * 0.65
        cc = (cx + d * math.cos(ang), cy + d * math.sin(ang))
        if num == "int":
            cc = (round(cc[0]), round(cc[1]))
        if rng.random() < 0.3:
            sub, _ = random_connected(rng, num, curved, cc, rho, nholes=1)
        else:
            sub, _ = random_simple(rng, num, curved and rng.random() < 0.6, cc, rho)
        parts.append(sub)
    return {"t": "disjoint", "parts": parts}, {"family": "disjoint", "ncomp": ncomp}


def random_nested_rings(rng, num=None, curved=False, center=(0, 0), size=10.0):
    """Disjoint shape with four nesting levels: a ring (outer minus hole) and, inside its hole,
    an island ring (island minus pit)."""
    num = num or rng.choice(["int", "frac", "float"])
    if curved:
        num = "float"
    scale = size if num != "int" else max(size, 400.0)
    cx, cy = float(center[0]), float(center[1])
    if num == "int":
        cx, cy = round(cx), round(cy)
    radii = [scale, scale * 0.5, scale * 0.25, scale * 0.12]
    parts = []
    for level, r in enumerate(radii):
        cw = level % 2 == 1
        if curved and rng.random() < 0.5:
            spec = {"t": "circle", "num": "float", "r": repr(r * 0.9), "c": [repr(cx), repr(cy)], "n": rng.choice([5, 8, 12])}
            if cw:
                spec["cw"] = True
        else:
            grid = grid_for(rng, num)
            if num != "int" and grid is not None and grid * r < 48:
                grid = int(math.ceil(48 / r))
            verts = None
            for _ in range(40):
                verts = convex_polygon(rng, rng.randint(5, 8), (cx, cy), r * 0.9, grid)
                if verts:
                    break
            if verts is None:
                raise RuntimeError("nested rings")
            spec = poly_spec(verts, num, cw)
        parts.append(spec)
    big = {"t": "connected", "parts": [parts[0], parts[1]]}
    island = {"t": "connected", "parts": [parts[2], parts[3]]}
    return {"t": "disjoint", "parts": [big, island]}, {"family": "nested-rings"}


def random_mixed_disjoint(rng, num=None, curved=False, center=(0, 0), size=10.0):
    """Disjoint shape mixing an unbounded component (the exterior of a big boundary) and a
    bounded island inside that boundary:  small | ~big."""
    num = num or rng.choice(["int", "frac", "float"])
    if curved:
        num = "float"
    scale = size if num != "int" else max(size, 160.0)
    cx, cy = float(center[0]), float(center[1])
    if num == "int":
        cx, cy = round(cx), round(cy)
    parts = []
    for level, r in enumerate((scale, scale * 0.35)):
        cw = level == 0
        if curved and rng.random() < 0.5:
            spec = {"t": "circle", "num": "float", "r": repr(r * 0.9), "c": [repr(cx), repr(cy)], "n": rng.choice([5, 8, 12])}
            if cw:
                spec["cw"] = True
        else:
            grid = grid_for(rng, num)
            if num != "int" and grid is not None and grid * r < 48:
                grid = int(math.ceil(48 / r))
            verts = None
            for _ in range(40):
                verts = convex_polygon(rng, rng.randint(5, 8), (cx, cy), r * 0.9, grid)
                if verts:
                    break
            if verts is None:
                raise RuntimeError("mixed disjoint")
            spec = poly_spec(verts, num, cw)
        parts.append(spec)
    return {"t": "disjoint", "parts": [parts[1], parts[0]]}, {"family": "mixed-disjoint"}


def validate_composite_exact(spec) -> bool:
    """Exact validation of polygonal composites: boundaries pairwise disjoint."""
    curves = []

    def collect(sp):
        if sp["t"] in ("connected", "disjoint"):
            for part in sp["parts"]:
                collect(part)
        elif sp["t"] == "poly":
            curves.extend(spec_curves_exact(sp))

    collect(spec)
    for i in range(len(curves)):
        for j in range(i + 1, len(curves)):
            con = O.polygon_pair_contacts(curves[i], curves[j])
            if con["proper"] or con["touch"] or con["overlap"]:
                return False
    return True


def random_shape(rng, kind=None, num=None, curved=None, center=(0, 0), size=10.0):
    """Random shape of a given kind letter S/C/D/E/W (U = unbounded simple, V = unbounded connected)."""
    kind = kind or rng.choice("SSSSCCDDUVEW")
    if curved is None:
        curved = rng.random() < 0.25
    for _ in range(20):
        if kind == "E":
            return {"t": "empty"}, {"family": "empty"}
        if kind == "W":
            return {"t": "whole"}, {"family": "whole"}
        if kind == "S":
            return random_simple(rng, num, curved, center, size)
        if kind == "U":
            return random_simple(rng, num, curved, center, size, cw=True)
        if kind == "C":
            spec, info = random_connected(rng, num, curved, center, size)
        elif kind == "V":
            spec, info = random_connected(rng, num, curved, center, size, unbounded=True, nholes=rng.randint(2, 3))
        elif kind == "D":
            spec, info = random_disjoint(rng, num, curved, center, size)
        elif kind == "N":
            spec, info = random_nested_rings(rng, num, curved, center, size)
        elif kind == "M":
            spec, info = random_mixed_disjoint(rng, num, curved, center, size)
        else:
            raise ValueError(kind)
        if validate_composite_exact(spec):
            return spec, info
    raise RuntimeError("could not generate shape of kind %s" % kind)


# ----------------------------------------------------------------------------------
# points
# ----------------------------------------------------------------------------------


def random_points(rng, box, n, exact_grid=None):
    """Uniform points in the inflated box; rationals on a grid when exact_grid"""
    x0, y0, x1, y1 = [float(v) for v in box]
    w, h = max(x1 - x0, 1e-9), max(y1 - y0, 1e-9)
    pts = []
    for _ in range(n):
        x = rng.uniform(x0 - 0.2 * w, x1 + 0.2 * w)
        y = rng.uniform(y0 - 0.2 * h, y1 + 0.2 * h)
        if exact_grid:
            pts.append((Fr(round(x * exact_grid), exact_grid), Fr(round(y * exact_grid), exact_grid)))
        else:
            pts.append((Fr(x), Fr(y)))
    return pts


def near_boundary_points(rng, curve, n, dists):
    """Points at the given distances on both sides of random boundary positions.
    Exact rationals (the normal is not normalised exactly: the offset is d * n / |n|_float)."""
    pts = []
    for _ in range(n):
        ctrl = rng.choice(curve)
        # not only dyadic parameters: pieces obtained by bisection meet their chords there
        den = rng.choice([64, 61, 97, 1000])
        t = Fr(rng.randint(1, den - 1), den)
        p = O.evaluate(ctrl, t)
        d = O.evaluate(O.derivative_ctrl(ctrl, 1), t) if len(ctrl) > 1 else (Fr(1), Fr(0))
        norm = math.hypot(float(d[0]), float(d[1]))
        if norm == 0:
            continue
        dist = rng.choice(dists)
        side = rng.choice([-1, 1])
        k = Fr(dist) / Fr(norm) * side
        pts.append((p[0] - d[1] * k, p[1] + d[0] * k))
    return pts


def lib_point(p, num):
    """Exact point -> value handed to the library"""
    if num == "float":
        return (float(p[0]), float(p[1]))
    return (p[0], p[1])
