"""Attach pre/post monitors to the real functions of the library, from outside.

`attach(owner, name, pre=, post=)` replaces the attribute on the class/module so that
internal calls are observed too.  Conditions *record and return*: they never raise into
the library, so a violated contract does not change the execution it observes.
Every monitor counts its evaluations; a deciding monitor with zero evaluations makes a
check inconclusive (a reference bound before attachment would bypass the wrapper).
"""
from __future__ import annotations

import functools
import traceback


class Monitors:
    def __init__(self):
        self.counts = {}
        self.violations = []
        self._attached = []
        self.depth = 0
        self.paused = 0

    # -- bookkeeping ---------------------------------------------------------------
    def count(self, name, n=1):
        self.counts[name] = self.counts.get(name, 0) + n

    def violate(self, name, message, **details):
        self.violations.append({"monitor": name, "message": message, **details})

    def pause(self):
        """Context manager: monitors do not observe calls the harness itself makes"""
        mon = self

        class _P:
            def __enter__(self_inner):
                mon.paused += 1

            def __exit__(self_inner, *exc):
                mon.paused -= 1

        return _P()

    # -- attachment ----------------------------------------------------------------
    def attach(self, owner, name, pre=None, post=None, label=None):
        """pre(args, kwargs) -> token ; post(token, args, kwargs, result, exc)"""
        label = label or "%s.%s" % (getattr(owner, "__name__", owner), name)
        try:
            raw = owner.__dict__[name] if isinstance(owner, type) else getattr(owner, name)
        except (KeyError, AttributeError):
            # the function no longer exists under this name (refactoring): the monitor observes
            # nothing, which the evaluation counters show; it is not an alarm
            self.count(label + ":unavailable")
            return None
        kind = None
        func = raw
        if isinstance(raw, staticmethod):
            kind, func = "static", raw.__func__
        elif isinstance(raw, classmethod):
            kind, func = "class", raw.__func__
        mon = self

        @functools.wraps(func)
        def wrapper(*args, **kwargs):
            if mon.paused:
                return func(*args, **kwargs)
            token = None
            mon.count(label + ":calls")
            if pre is not None:
                mon.paused += 1
                try:
                    token = pre(args, kwargs)
                except Exception:  # a monitor bug must not look like a library bug
                    mon.count(label + ":monitor-error")
                    mon.violate(label, "monitor error in pre", tb=traceback.format_exc(), monitor_bug=True)
                finally:
                    mon.paused -= 1
            try:
                result = func(*args, **kwargs)
            except BaseException as exc:
                if post is not None:
                    mon.paused += 1
                    try:
                        post(token, args, kwargs, None, exc)
                    except Exception:
                        mon.count(label + ":monitor-error")
                        mon.violate(label, "monitor error in post", tb=traceback.format_exc(), monitor_bug=True)
                    finally:
                        mon.paused -= 1
                raise
            if post is not None:
                mon.paused += 1
                try:
                    post(token, args, kwargs, result, None)
                except Exception:
                    mon.count(label + ":monitor-error")
                    mon.violate(label, "monitor error in post", tb=traceback.format_exc(), monitor_bug=True)
                finally:
                    mon.paused -= 1
            return result

        if kind == "static":
            new = staticmethod(wrapper)
        elif kind == "class":
            new = classmethod(wrapper)
        else:
            new = wrapper
        setattr(owner, name, new)
        self._attached.append((owner, name, raw))
        return wrapper

    def attach_path(self, module, clsname, name, pre=None, post=None, label=None):
        """attach to module.<clsname>.<name>; tolerant of a class that no longer exists"""
        owner = getattr(module, clsname, None)
        if owner is None:
            self.count((label or "%s.%s" % (clsname, name)) + ":unavailable")
            return None
        return self.attach(owner, name, pre=pre, post=post, label=label)

    def detach_all(self):
        for owner, name, raw in reversed(self._attached):
            setattr(owner, name, raw)
        self._attached = []

    def take_violations(self):
        out, self.violations = self.violations, []
        return out
