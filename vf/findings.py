"""Mechanism predicates for known findings.

A finding is matched by a predicate over the *recorded case* (tags that the check computed
before/while running the library: contact classes of operand pairs, degrees, sizes,
denominators), never by a hash, seed or literal coordinates.  Only findings listed with
status "open" in known_findings.json suppress a VIOLATION (vf/runner.py).
"""
from __future__ import annotations

PREDICATES = {}


def predicate(fid):
    def deco(fn):
        PREDICATES[fid] = fn
        return fn

    return deco


def classify(prop, tags):
    """Returns the id of the first finding of this property whose predicate holds"""
    for fid, fn in PREDICATES.items():
        props = fn.__dict__.get("props", ())
        if prop in props and fn(tags):
            return fid
    return None


def for_props(*props):
    def deco(fn):
        fn.props = props
        return fn

    return deco


@predicate("K-contact")
@for_props("C01", "C05", "C06", "C03", "C10", "C12")
def k_contact(tags):
    """An operator application inside the case had operands whose boundaries touch
    without crossing transversally (shared vertex, vertex on edge, overlapping edges,
    crossing through a vertex, tangency)."""
    return bool(tags.get("contact"))


@predicate("K-abstol")
@for_props("C12", "C01", "C05", "C14")
def k_abstol(tags):
    """Absolute tolerances (1e-6 crossing distance / Newton determinant cut-off / box margin /
    parameter filters, 1e-9 point equality): a curved operand in a configuration whose
    diameter is below 0.5 length units, or float coordinates above 4e6 (where the spacing of
    doubles exceeds the 1e-9 point-equality tolerance)."""
    if tags.get("curved") and tags.get("diameter") is not None and tags["diameter"] < 0.5:
        return True
    # float spacing exceeds the 1e-9 point-equality tolerance from |coordinate| = 2**52 * 1e-9 = 4.5e6 on
    if tags.get("maxcoord") is not None and tags["maxcoord"] > 4.0e6:
        return True
    return False


@predicate("K-cap")
@for_props("C04", "C13", "C05")
def k_cap(tags):
    """limit_denominator(10**9) re-applied to intermediate points: a coordinate
    denominator times the node denominator raised to the degree exceeds 10**9."""
    return bool(tags.get("cap_exceeded"))


@predicate("K-sliver")
@for_props("C15")
def k_sliver(tags):
    """clean() raised, or did not re-unite the pieces, while the curve held a piece whose
    length is below 2e-5 of the longest original segment: the union parameter is then
    within ~1e-5 of 0/1 and pynurbs' knot removal fails."""
    return bool(tags.get("clean_raised") or tags.get("clean_class")) and tags.get("min_adjacent_ratio", 1.0) < 2e-5


@predicate("K-union-tol")
@for_props("C15", "C07")
def k_union_tol(tags):
    """PlanarCurve.__or__ accepts a union whose *squared* L2 error is below 1e-9 (distance
    up to ~3e-5): clean() on a curved boundary may unite a piece with a short piece of the
    next (tangent-continuous) segment, moving a junction along the curve."""
    return bool(tags.get("clean_class")) and bool(tags.get("curved_union_small_dev"))
