"""Re-usable judges (post-conditions) shared by several checks.

Each judge returns a list of (message, details) violations; an empty list means held.
"""
from __future__ import annotations

import math
from fractions import Fraction as Fr

from . import oracle as O
from . import snapshot as S

PARAM_TOL = Fr(1, 10 ** 6)   # the library ignores split parameters this close to 0 / 1
POINT_TOL = 1e-9             # the library's point equality


def curve_is_rational_straight(jordan) -> bool:
    raw = S.raw_numbers(jordan)
    if not all((type(v) is int) or (isinstance(v, Fr) and O.is_wellformed_fraction(v)) for v in raw):
        return False
    return all(s.degree == 1 for s in jordan.segments)


def junction_identity_violations(jordan):
    """consecutive segments must share the same Point2D object"""
    out = []
    segs = jordan.segments
    n = len(segs)
    for i in range(n):
        a = segs[i].ctrlpoints[-1]
        b = segs[(i + 1) % n].ctrlpoints[0]
        if a is not b:
            out.append(("junction %d/%d: end point of one piece and start point of the next are different objects (%s vs %s)" % (
                i, n, a, b), {}))
            break
    return out


def zero_length_violations(curve):
    """a piece whose control points all coincide exactly"""
    out = []
    n = len(curve)
    for i, seg in enumerate(curve):
        a = seg[0]
        if all(p == a for p in seg):
            out.append(("zero-length piece: segment %d/%d has all control points at %s" % (i, n, S.fmt_point((float(a[0]), float(a[1])))), {}))
            break
    return out


def split_mode(before, pairs, exact):
    """'exact' | 'capped' | 'float' -- how the result of a split can be compared.
    The library rounds every intermediate point to denominators <= 10**9 (K-cap): exact
    comparison only while (node denominator) x (vertex denominator) stays below the cap."""
    if not exact:
        return "float"
    maxden = max(max(p[0].denominator, p[1].denominator) for seg in before for p in seg)
    nodeden = max([O.to_fr(n).denominator for _, n in pairs] or [1])
    if maxden * nodeden > 10 ** 9:
        return "capped"
    return "exact"


def min_piece_length(curve) -> float:
    return min(math.hypot(float(s[-1][0] - s[0][0]), float(s[-1][1] - s[0][1])) for s in curve)


def min_adjacent_ratio(curve) -> float:
    """min over adjacent pieces of (shorter chord) / (sum of the two chords)"""
    lens = [math.hypot(float(s[-1][0] - s[0][0]), float(s[-1][1] - s[0][1])) for s in curve]
    n = len(lens)
    best = 1.0
    for i in range(n):
        a, b = lens[i], lens[(i + 1) % n]
        if a + b > 0:
            best = min(best, min(a, b) / (a + b))
    return best


def reduced_pieces(before, after, tol):
    """Number of pieces of `after` whose degree is lower than the degree of the segment of
    `before` they retrace (pieces are matched by walking both chains from the common start)."""
    count = 0
    j = 0
    n = len(after)
    # align the start: find the piece of after that starts at before[0][0]
    start = None
    for k in range(n):
        if abs(float(after[k][0][0] - before[0][0][0])) <= tol and abs(float(after[k][0][1] - before[0][0][1])) <= tol:
            start = k
            break
    if start is None:
        return -1
    j = start
    used = 0
    for seg in before:
        end = seg[-1]
        while used < n:
            piece = after[j % n]
            if len(piece) < len(seg):
                count += 1
            j += 1
            used += 1
            if abs(float(piece[-1][0] - end[0])) <= tol and abs(float(piece[-1][1] - end[1])) <= tol:
                break
    return count


def judge_split(before, pairs, jordan_after, exact, had_exception=None):
    """before: exact curve snapshot before split; pairs: list of (index, node) requested;
    jordan_after: the library curve after the call."""
    out = []
    if had_exception is not None:
        return [("split raised %s: %s for an admissible multiset" % (type(had_exception).__name__, str(had_exception)[:120]), {})]
    after = S.snap_curve(jordan_after)
    box = O.curve_bbox(before)
    L = max(1.0, O.diameter(box))
    mode = split_mode(before, pairs, exact)
    exact = mode == "exact"
    tol = 0.0 if exact else (1e-8 * L if mode == "capped" else 1e-6 * L)
    ok, why = O.same_curve(before, after, tol)
    if not ok:
        out.append(("split changed the curve: %s" % why, {"before": S.curve_to_json(before), "after": S.curve_to_json(after)}))
        return out
    a0, a1 = O.signed_area(before), O.signed_area(after)
    if exact:
        if a0 != a1:
            out.append(("split changed the enclosed area of a rational polygon: %s -> %s" % (a0, a1), {}))
    else:
        if abs(float(a0 - a1)) > 1e-6 * max(1.0, O.chord_length(before)):
            out.append(("split changed the enclosed area by %g (> 1e-6 x length)" % abs(float(a0 - a1)), {}))
    out += zero_length_violations(after)
    out += junction_identity_violations(jordan_after)
    # junctions: every admissible requested parameter has a junction at the point of the
    # original curve; every junction is an old junction or a requested point
    old_junctions = [seg[0] for seg in before]
    requested = []
    for index, node in pairs:
        node = O.to_fr(node)
        if node < PARAM_TOL or node > 1 - PARAM_TOL:
            continue
        requested.append(O.evaluate(before[index], node))
    new_junctions = [seg[0] for seg in after]
    # two different requested parameters on one segment closer than the library's parameter
    # tolerance may be merged into one junction: then junctions are matched within the
    # distance the curve travels in 1e-6 of parameter
    clustered = False
    by_index = {}
    for index, node in pairs:
        by_index.setdefault(index, set()).add(O.to_fr(node))
    for index, nodes_ in by_index.items():
        srt = sorted(nodes_)
        for u, v in zip(srt[:-1], srt[1:]):
            if v - u < PARAM_TOL:
                clustered = True
    speed = 0.0
    for seg in before:
        for a, b in zip(seg[:-1], seg[1:]):
            speed = max(speed, (len(seg) - 1) * math.hypot(float(b[0] - a[0]), float(b[1] - a[1])))
    jt = Fr(0) if (exact and not clustered) else Fr(max(1e-6 * L, 2e-6 * speed))

    def near(p, q):
        return abs(p[0] - q[0]) <= jt and abs(p[1] - q[1]) <= jt

    for q in requested:
        if not any(near(q, j) for j in new_junctions):
            out.append(("no junction at the requested split point %s" % S.fmt_point((float(q[0]), float(q[1]))), {}))
            break
    for j in new_junctions:
        if not any(near(j, q) for q in old_junctions) and not any(near(j, q) for q in requested):
            out.append(("junction %s is neither an old junction nor a requested split point" % S.fmt_point((float(j[0]), float(j[1]))), {}))
            break
    if exact and not clustered and len(set(old_junctions)) == len(old_junctions) and \
            len(new_junctions) != len(set(old_junctions) | set(requested)):
        out.append(("split created %d junctions, expected %d distinct ones" % (
            len(new_junctions), len(set(old_junctions) | set(requested))), {}))
    return out


# ----------------------------------------------------------------------------------
# well-formedness of shapes (C06)
# ----------------------------------------------------------------------------------


def closed_chain_violations(shape):
    """each boundary is a closed chain: the end point of a segment IS the start of the next"""
    out = []
    for k, jordan in enumerate(getattr(shape, "jordans", ())):
        segs = jordan.segments
        n = len(segs)
        if n == 0:
            out.append(("boundary %d has no segment" % k, {}))
            continue
        for i in range(n):
            a = segs[i].ctrlpoints[-1]
            b = segs[(i + 1) % n].ctrlpoints[0]
            pa, pb = S.snap_point(a), S.snap_point(b)
            if pa != pb:
                out.append(("boundary %d is not closed: segment %d ends at %s, the next starts at %s" % (k, i, a, b), {}))
                break
    return out


def polyline_self_crossing(curve):
    """Proper self-crossing of a polygonal curve (exact).  Touching contacts are not
    reported here."""
    n = len(curve)
    for i in range(n):
        for j in range(i + 2, n):
            if i == 0 and j == n - 1:
                continue
            res = O.seg_seg(curve[i][0], curve[i][1], curve[j][0], curve[j][1])
            if res[0] == "proper":
                return (i, j)
    return None


def flat_self_crossing(curve, nsub=8):
    """Proper self-crossing of the flattened curve (float; for curved boundaries)"""
    pts = O.flatten(curve, nsub)
    n = len(pts)
    if n > 400:
        return None
    segs = [(pts[i], pts[(i + 1) % n]) for i in range(n)]

    def orient(a, b, c):
        return (b[0] - a[0]) * (c[1] - a[1]) - (b[1] - a[1]) * (c[0] - a[0])

    for i in range(n):
        a0, a1 = segs[i]
        for j in range(i + 2, n):
            if i == 0 and j == n - 1:
                continue
            b0, b1 = segs[j]
            if max(a0[0], a1[0]) < min(b0[0], b1[0]) or max(b0[0], b1[0]) < min(a0[0], a1[0]):
                continue
            if max(a0[1], a1[1]) < min(b0[1], b1[1]) or max(b0[1], b1[1]) < min(a0[1], a1[1]):
                continue
            d1, d2 = orient(a0, a1, b0), orient(a0, a1, b1)
            d3, d4 = orient(b0, b1, a0), orient(b0, b1, a1)
            scale = (abs(a1[0] - a0[0]) + abs(a1[1] - a0[1])) * (abs(b1[0] - b0[0]) + abs(b1[1] - b0[1]))
            eps = 1e-9 * scale
            if d1 * d2 < -eps * eps and d3 * d4 < -eps * eps and min(abs(d1), abs(d2), abs(d3), abs(d4)) > eps:
                return (i, j)
    return None


def interior_point(curve):
    """A point certified strictly inside the bounded region enclosed by the curve
    (regardless of orientation), or None"""
    orient = O.orientation(curve)
    box = O.curve_bbox(curve)
    diam = O.diameter(box)
    delta = Fr(max(diam * 1e-7, 1e-12))
    tries = 0
    for seg in curve:
        for t in (Fr(1, 2), Fr(1, 3), Fr(3, 4)):
            p = O.evaluate(seg, t)
            if len(seg) > 1:
                d = O.evaluate(O.derivative_ctrl(seg, 1), t)
            norm = math.hypot(float(d[0]), float(d[1]))
            if norm == 0:
                continue
            for dist in (1e-3, 1e-5, 1e-2):
                k = Fr(dist * diam / norm) * orient
                q = (p[0] - d[1] * k, p[1] + d[0] * k)   # left of the direction of travel
                tries += 1
                try:
                    if O.winding(curve, q, delta) == orient:
                        return q
                except O.TooClose:
                    continue
            if tries > 40:
                return None
    return None


# ----------------------------------------------------------------------------------
# exact-arithmetic blow-up guard ("never hangs" decided on a logical resource, not on time)
# ----------------------------------------------------------------------------------


class BigNumBlowup(BaseException):
    """A rational with an absurdly large denominator reached the evaluation kernel"""


BIGNUM_BITS = 100000


class BigNumGuard:
    """Guard on BezierCurve.eval: no parameter may carry more than BIGNUM_BITS bits.

    Correct executions keep parameters below a few hundred bits (coordinates are capped at
    10**9, parameters come from crossings of such data).  An exact Newton iteration without
    denominator cap triples the number of digits per step and effectively never returns;
    the guard aborts such a run deterministically, independent of the machine's speed, and
    the caller records it as 'does not return in practice'."""

    def __init__(self):
        self.raw = None
        self.evaluations = 0

    def install(self):
        from shapepy import curve as crv

        raw = getattr(getattr(crv, "BezierCurve", None), "eval", None)
        if raw is None:
            return
        guard = self

        def eval_guarded(self_, nodes):
            guard.evaluations += 1
            try:
                for node in nodes:
                    if isinstance(node, Fr) and node.denominator.bit_length() > BIGNUM_BITS:
                        raise BigNumBlowup("a parameter with a %d-bit denominator reached BezierCurve.eval" %
                                           node.denominator.bit_length())
            except TypeError:
                pass
            return raw(self_, nodes)

        crv.BezierCurve.eval = eval_guarded
        self.raw = raw

    def remove(self):
        if self.raw is not None:
            from shapepy import curve as crv

            crv.BezierCurve.eval = self.raw
            self.raw = None


def guarded_call(fn, *args):
    """(result, exception) like common.call, but a BigNumBlowup is returned as exception too"""
    try:
        return fn(*args), None
    except BigNumBlowup as exc:
        return None, exc
    except Exception as exc:
        from vf import worker

        if worker.ALARM["fired"]:
            raise worker.CaseTimeout()
        return None, exc


# ----------------------------------------------------------------------------------
# well-formed results (C06)
# ----------------------------------------------------------------------------------

KIND_NOT = {"E": "W", "W": "E", "S": "S", "C": "D", "D": "CD"}


def allowed_kinds(op, ka, kb=None):
    """kinds the documentation's tables allow for the result"""
    if op in ("inv", "neg"):
        return KIND_NOT[ka]
    if op in ("or", "add"):
        if ka == "W" or kb == "W":
            return "W"
        if ka == "E":
            return kb
        if kb == "E":
            return ka
        return "WSCD"
    if op in ("and", "mul"):
        if ka == "E" or kb == "E":
            return "E"
        if ka == "W":
            return kb
        if kb == "W":
            return ka
        return "ESCD"
    if op == "sub":
        if ka == "E" or kb == "W":
            return "E"
        if kb == "E":
            return ka
        if ka == "W":
            return KIND_NOT[kb]
        return "ESCD"
    if op == "xor":
        if ka == "E":
            return kb
        if kb == "E":
            return ka
        if ka == "W":
            return KIND_NOT[kb]
        if kb == "W":
            return KIND_NOT[ka]
        return "EWSCD"
    raise ValueError(op)


def _curve_wellformed(curve, what):
    out = []
    out += [(what + ": " + m, d) for m, d in zero_length_violations(curve)]
    if O.is_polygonal(curve):
        if len(curve) < 3:
            out.append(("%s has only %d segments" % (what, len(curve)), {}))
        hit = polyline_self_crossing(curve)
        if hit:
            out.append(("%s crosses itself (segments %d and %d)" % (what, hit[0], hit[1]), {}))
    else:
        hit = flat_self_crossing(curve)
        if hit:
            out.append(("%s crosses itself (flattened pieces %d and %d)" % (what, hit[0], hit[1]), {}))
    if O.signed_area(curve) == 0:
        out.append(("%s encloses no area" % what, {}))
    return out


def judge_wellformed(shape):
    """C06 (1)-(4) on a library shape; returns list of (message, details)"""
    import shapepy
    from shapepy import shape as shp

    out = []
    if isinstance(shape, shp.SingletonShape):
        return out
    if not isinstance(shape, shp.DefinedShape):
        return [("result is a %s, not a shape" % type(shape).__name__, {})]
    out += closed_chain_violations(shape)
    if out:
        return out
    region = S.snap_shape(shape)

    def simple(reg, what):
        res = []
        if reg[0] != "simple":
            res.append(("%s is a %s where a simple shape is required" % (what, reg[0]), {}))
            return res
        res += _curve_wellformed(reg[1], what)
        return res

    def connected(reg, what):
        res = []
        subs = reg[1]
        if len(subs) < 2:
            res.append(("%s has %d subshapes (a connected shape needs an outer-or-unbounded region and holes: >= 2 boundaries)" % (what, len(subs)), {}))
            return res
        for i, sub in enumerate(subs):
            res += simple(sub, "%s boundary %d" % (what, i))
        if res:
            return res
        curves = [sub[1] for sub in subs]
        orients = [O.orientation(c) for c in curves]
        outer = [c for c, o in zip(curves, orients) if o > 0]
        holes = [c for c, o in zip(curves, orients) if o < 0]
        if len(outer) > 1:
            res.append(("%s has %d counter-clockwise boundaries (at most one outer region)" % (what, len(outer)), {}))
            return res
        for i, h in enumerate(holes):
            q = interior_point(h)
            if q is None:
                continue
            if outer:
                try:
                    if O.winding(outer[0], q, 0) != 1:
                        res.append(("%s: hole %d lies outside the outer boundary" % (what, i), {}))
                except O.TooClose:
                    pass
            for j, h2 in enumerate(holes):
                if j == i:
                    continue
                try:
                    if O.winding(h2, q, 0) != 0:
                        res.append(("%s: hole %d lies inside hole %d" % (what, i, j), {}))
                except O.TooClose:
                    pass
        return res

    kind = region[0]
    if kind == "simple":
        out += simple(region, "the boundary")
    elif kind == "connected":
        out += connected(region, "the connected shape")
    elif kind == "disjoint":
        subs = region[1]
        if len(subs) < 2:
            out.append(("disjoint shape with %d component" % len(subs), {}))
        for i, sub in enumerate(subs):
            if sub[0] == "simple":
                out += simple(sub, "component %d" % i)
            elif sub[0] == "connected":
                out += connected(sub, "component %d" % i)
            else:
                out.append(("component %d is a %s" % (i, sub[0]), {}))
        if not out:
            # pairwise disjoint interiors: an interior point of a component is in no other one
            for i, sub in enumerate(subs):
                q = component_interior_point(sub)
                if q is None:
                    continue
                for j, other in enumerate(subs):
                    if i == j:
                        continue
                    try:
                        if O.region_contains(other, q, 0):
                            out.append(("components %d and %d of the disjoint shape overlap (point %s is inside both)" % (
                                i, j, S.fmt_point((float(q[0]), float(q[1])))), {}))
                    except O.TooClose:
                        pass
    return out


def component_interior_point(region):
    """a point inside the region denoted by a simple/connected snapshot"""
    curves = O.region_curves(region)
    box = O.curves_bbox(curves)
    diam = O.diameter(box)
    for c in curves:
        orient = O.orientation(c)
        for seg in c:
            for t in (Fr(1, 2), Fr(1, 4)):
                p = O.evaluate(seg, t)
                d = O.evaluate(O.derivative_ctrl(seg, 1), t)
                norm = math.hypot(float(d[0]), float(d[1]))
                if norm == 0:
                    continue
                for dist in (1e-4, 1e-6, 1e-2):
                    k = Fr(dist * diam / norm)
                    q = (p[0] - d[1] * k, p[1] + d[0] * k)  # left of the direction of travel = inside
                    try:
                        if O.region_contains(region, q, Fr(dist * diam / 100)):
                            return q
                    except O.TooClose:
                        continue
    return None
