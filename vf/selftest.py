"""Self-test of the oracle kernel (the trusted base).  Pure Python, no library calls."""
from __future__ import annotations

import math
import random
import sys
from fractions import Fraction as Fr

from vf import oracle as O


def check(cond, msg):
    if not cond:
        print("SELFTEST FAILED:", msg)
        raise SystemExit(3)


def main():
    rng = random.Random(12345)
    n = 0
    # de Casteljau against the power basis, split, subsegment
    for _ in range(60):
        deg = rng.randint(1, 6)
        ctrl = tuple((Fr(rng.randint(-50, 50), rng.randint(1, 9)), Fr(rng.randint(-50, 50), rng.randint(1, 9)))
                     for _ in range(deg + 1))
        xs, ys = O.power_basis(ctrl)
        for _ in range(4):
            t = Fr(rng.randint(0, 16), 16)
            p = O.evaluate(ctrl, t)
            check(p == (O.poly_eval(xs, t), O.poly_eval(ys, t)), "de Casteljau vs power basis")
            n += 1
        t0, t1 = sorted((Fr(rng.randint(0, 8), 16), Fr(rng.randint(9, 16), 16)))
        sub = O.subsegment(ctrl, t0, t1)
        for s in (Fr(0), Fr(1, 3), Fr(1)):
            check(O.evaluate(sub, s) == O.evaluate(ctrl, t0 + s * (t1 - t0)), "subsegment")
            n += 1
        d = O.derivative_ctrl(ctrl, 1)
        dx = O.poly_der(xs)
        t = Fr(3, 7)
        check(O.evaluate(d, t)[0] == O.poly_eval(dx, t), "derivative")
    # winding / area against shoelace and point-in-polygon by crossing number
    for _ in range(60):
        k = rng.randint(3, 9)
        angs = sorted(rng.uniform(0, math.tau) for _ in range(k))
        verts = [(Fr(round(10 * rng.uniform(3, 9) * math.cos(a))), Fr(round(10 * rng.uniform(3, 9) * math.sin(a)))) for a in angs]
        curve = tuple((verts[i], verts[(i + 1) % k]) for i in range(k))
        if not O.polygon_is_simple(curve):
            continue
        check(O.signed_area(curve) == O.shoelace(verts), "area vs shoelace")
        start = rng.randint(0, k - 1)
        rot = curve[start:] + curve[:start]
        split_curve = []
        for seg in curve:
            a, b = O.split(seg, Fr(1, 3))
            split_curve += [a, b]
        split_curve = tuple(split_curve)
        check(O.same_curve(curve, rot)[0] and O.same_curve(curve, split_curve)[0], "same_curve invariances")
        rev = tuple((b, a) for a, b in reversed(curve))
        check(not O.same_curve(curve, rev)[0], "same_curve sees orientation")
        for _ in range(10):
            p = (Fr(rng.randint(-100, 100), 1) + Fr(1, 3), Fr(rng.randint(-100, 100)) + Fr(1, 7))
            w = O.winding(curve, p)
            # even-odd crossing number on the raw vertices
            inside = False
            for i in range(k):
                a, b = verts[i], verts[(i + 1) % k]
                if (a[1] > p[1]) != (b[1] > p[1]):
                    x = a[0] + (p[1] - a[1]) * (b[0] - a[0]) / (b[1] - a[1])
                    if x > p[0]:
                        inside = not inside
            check((w != 0) == inside and w in (0, O.orientation(curve)), "winding vs crossing number")
            check(O.winding(split_curve, p) == w and O.winding(rot, p) == w and O.winding(rev, p) == -w,
                  "winding invariant under re-segmentation")
            n += 1
    # curved: n-arc circle area closed form, band, moments by Green vs polygonal refinement
    for ndiv in (4, 5, 8, 16):
        theta = math.tau / ndiv
        h = math.tan(theta / 2)
        segs = []
        for i in range(ndiv):
            a0, a1 = i * theta, (i + 1) * theta
            am = (a0 + a1) / 2
            rm = 1 / math.cos(theta / 2)
            segs.append(((Fr(math.cos(a0)), Fr(math.sin(a0))), (Fr(rm * math.cos(am)), Fr(rm * math.sin(am))),
                         (Fr(math.cos(a1)), Fr(math.sin(a1)))))
        # close exactly
        segs = [list(s) for s in segs]
        for i in range(ndiv):
            segs[i][2] = segs[(i + 1) % ndiv][0]
        curve = tuple(tuple(s) for s in segs)
        area = float(O.signed_area(curve))
        check(abs(area - O.circle_arc_area(1.0, ndiv)) < 1e-12, "closed-form area of the n-arc circle (%d)" % ndiv)
        rmin, rmax = O.circle_band(1.0, ndiv)
        for _ in range(40):
            ang = rng.uniform(0, math.tau)
            for r, want in ((rmin * 0.999, True), (rmax * 1.001, False)):
                p = (Fr(r * math.cos(ang)), Fr(r * math.sin(ang)))
                try:
                    got = O.simple_contains(curve, p, Fr(1, 10 ** 6))
                except O.TooClose:
                    continue
                check(got == want, "radial band of the n-arc circle")
                n += 1
        # distance / same_curve under subdivision of curved pieces
        sub = []
        for s in curve:
            a, b = O.split(s, Fr(2, 5))
            sub += [a, b]
        check(O.same_curve(curve, tuple(sub), 1e-9)[0], "same_curve on subdivided arcs")
        moved = tuple(tuple((p[0] + Fr(1, 1000), p[1]) for p in s) for s in curve)
        check(not O.same_curve(curve, moved, 1e-6)[0], "same_curve sees a shift of 1e-3")
        # subtended angles sum to 2 pi inside
        tot = sum(O.subtended_angle(s, (Fr(1, 10), Fr(1, 5))) for s in curve)
        check(abs(tot - math.tau) < 1e-9, "subtended angles sum to 2pi")
    # seg_seg
    check(O.seg_seg((Fr(0), Fr(0)), (Fr(2), Fr(2)), (Fr(0), Fr(2)), (Fr(2), Fr(0)))[:1] == ("proper",), "seg_seg proper")
    check(O.seg_seg((Fr(0), Fr(0)), (Fr(2), Fr(0)), (Fr(1), Fr(0)), (Fr(3), Fr(0)))[0] == "overlap", "seg_seg overlap")
    check(O.seg_seg((Fr(0), Fr(0)), (Fr(2), Fr(0)), (Fr(2), Fr(0)), (Fr(3), Fr(5)))[0] == "touch", "seg_seg touch")
    check(O.seg_seg((Fr(0), Fr(0)), (Fr(2), Fr(0)), (Fr(0), Fr(1)), (Fr(2), Fr(1)))[0] == "none", "seg_seg none")
    print("oracle selftest ok (%d identities)" % n)
    return 0


if __name__ == "__main__":
    sys.exit(main())
