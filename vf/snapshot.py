"""Immutable exact snapshots of library objects, and the object-graph walker.

A snapshot never calls a library method that computes something (no float(), no ==, no
operators): it reads the private storage through the public read-only properties
`segments`, `ctrlpoints`, `subshapes`, `jordans`, which only return stored tuples.
"""
from __future__ import annotations

from fractions import Fraction as Fr

from . import oracle as O


def lib():
    import shapepy
    from shapepy import shape as shp

    return shapepy, shp


def raw_point(point):
    """the two stored coordinate objects, read through the public indexing of Point2D"""
    return (point[0], point[1])


def snap_point(point):
    x, y = raw_point(point)
    return (O.to_fr(x), O.to_fr(y))


def snap_segment(segment):
    return tuple(snap_point(p) for p in segment.ctrlpoints)


def snap_curve(jordan):
    return tuple(snap_segment(s) for s in jordan.segments)


def snap_shape(shape):
    _, shp = lib()
    if isinstance(shape, shp.EmptyShape):
        return ("empty",)
    if isinstance(shape, shp.WholeShape):
        return ("whole",)
    if isinstance(shape, shp.SimpleShape):
        return ("simple", snap_curve(shape.jordans[0]))
    if isinstance(shape, shp.ConnectedShape):
        return ("connected", tuple(snap_shape(s) for s in shape.subshapes))
    if isinstance(shape, shp.DisjointShape):
        return ("disjoint", tuple(snap_shape(s) for s in shape.subshapes))
    raise TypeError("not a shape: %r" % (type(shape),))


def snap(obj):
    import shapepy

    if isinstance(obj, shapepy.JordanCurve):
        return ("curve", snap_curve(obj))
    return snap_shape(obj)


def kind_letter(shape) -> str:
    return {"empty": "E", "whole": "W", "simple": "S", "connected": "C", "disjoint": "D"}[
        snap_shape(shape)[0]
    ]


def raw_numbers(obj):
    """All raw coordinate objects stored in a shape / curve (for type checks)"""
    import shapepy

    out = []
    if isinstance(obj, shapepy.JordanCurve):
        jordans = [obj]
    else:
        jordans = list(getattr(obj, "jordans", ()))
    for jordan in jordans:
        for segment in jordan.segments:
            for point in segment.ctrlpoints:
                x, y = raw_point(point)
                out.append(x)
                out.append(y)
    return out


def object_ids(obj):
    """ids of every mutable library object reachable from a shape or curve"""
    import shapepy
    from shapepy import shape as shp

    ids = {}
    keep = []  # keep temporaries alive while ids are collected

    def add(o, what):
        ids[id(o)] = what
        keep.append(o)

    def walk_curve(jordan):
        add(jordan, "JordanCurve")
        for segment in jordan.segments:
            add(segment, "PlanarCurve")
            for point in segment.ctrlpoints:
                add(point, "Point2D")

    def walk_shape(shape):
        if isinstance(shape, shp.SingletonShape):
            return
        add(shape, type(shape).__name__)
        if isinstance(shape, shp.SimpleShape):
            walk_curve(shape.jordans[0])
        else:
            for sub in shape.subshapes:
                walk_shape(sub)

    if isinstance(obj, shapepy.JordanCurve):
        walk_curve(obj)
    else:
        walk_shape(obj)
    return ids, keep


def structure(region):
    """Kind tree without geometry: used to compare structure before/after"""
    kind = region[0]
    if kind in ("empty", "whole"):
        return (kind,)
    if kind == "simple":
        return ("simple",)
    return (kind, tuple(sorted(structure(s) for s in region[1])))


def same_denotation(before, after, tol=0.0):
    """The object still denotes the same region: same structure and every boundary is a
    re-segmentation of the boundary it was (matched in order)."""
    if before[0] == "curve":
        if after[0] != "curve":
            return False, "kind changed"
        return O.same_curve(before[1], after[1], tol)
    if before[0] != after[0]:
        return False, "kind changed %s -> %s" % (before[0], after[0])
    kind = before[0]
    if kind in ("empty", "whole"):
        return True, "singleton"
    if kind == "simple":
        return O.same_curve(before[1], after[1], tol)
    if len(before[1]) != len(after[1]):
        return False, "number of subshapes changed"
    # subshapes may be re-sorted by the setters; match as multisets
    rest = list(after[1])
    for sub in before[1]:
        for j, cand in enumerate(rest):
            ok, _ = same_denotation(sub, cand, tol)
            if ok:
                rest.pop(j)
                break
        else:
            return False, "a subshape has no counterpart"
    return True, "all subshapes match"


def region_tol(region, rel=1e-6) -> float:
    """Tolerance for non-exact comparison: rel * max(1, diameter)"""
    curves = O.region_curves(region) if region[0] != "curve" else [region[1]]
    if not curves:
        return rel
    return rel * max(1.0, O.diameter(O.curves_bbox(curves)))


def is_exact_region(region) -> bool:
    """All boundaries straight (then exact comparison is available)"""
    curves = O.region_curves(region) if region[0] != "curve" else [region[1]]
    return all(O.is_polygonal(c) for c in curves)


def fmt_point(p):
    return "(%s, %s)" % (p[0], p[1])


def curve_to_json(curve):
    return [[[str(p[0]), str(p[1])] for p in seg] for seg in curve]


def region_to_json(region):
    kind = region[0]
    if kind in ("empty", "whole"):
        return {"kind": kind}
    if kind in ("simple", "curve"):
        return {"kind": kind, "curve": curve_to_json(region[1])}
    return {"kind": kind, "subs": [region_to_json(s) for s in region[1]]}


def curve_from_json(data):
    return tuple(tuple((Fr(p[0]), Fr(p[1])) for p in seg) for seg in data)
