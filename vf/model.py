"""Shadow model: region expressions over exact leaves, and the operator table.

A leaf is the exact snapshot of a library operand taken when the generator created it,
before any operator can touch it.  Membership in an expression is the boolean combination
of the leaf memberships -- no boolean operation on boundaries is needed, so the model is
independent of everything the library does.
"""
from __future__ import annotations

from fractions import Fraction as Fr

from . import oracle as O

BINARY = {
    "or": lambda a, b: a | b,
    "and": lambda a, b: a & b,
    "sub": lambda a, b: a - b,
    "xor": lambda a, b: a ^ b,
    "add": lambda a, b: a + b,
    "mul": lambda a, b: a * b,
}
UNARY = {
    "inv": lambda a: ~a,
    "neg": lambda a: -a,
}
SYMBOL = {"or": "|", "and": "&", "sub": "-", "xor": "^", "add": "+", "mul": "*", "inv": "~", "neg": "-"}
TRUTH = {
    "or": lambda x, y: x or y,
    "and": lambda x, y: x and y,
    "sub": lambda x, y: x and not y,
    "xor": lambda x, y: x != y,
    "add": lambda x, y: x or y,
    "mul": lambda x, y: x and y,
}


def leaf(region):
    return ("leaf", region)


def contains(expr, p, delta=0) -> bool:
    """Membership of p in the expression; TooClose if p is within delta of any leaf
    boundary (all leaves are always evaluated)."""
    tag = expr[0]
    if tag == "leaf":
        return O.region_contains(expr[1], p, delta)
    if tag in UNARY:
        return not contains(expr[1], p, delta)
    x = contains(expr[1], p, delta)
    y = contains(expr[2], p, delta)
    return TRUTH[tag](x, y)


def leaves(expr):
    if expr[0] == "leaf":
        return [expr[1]]
    out = []
    for sub in expr[1:]:
        out += leaves(sub)
    return out


def leaf_curves(expr):
    out = []
    for reg in leaves(expr):
        out += O.region_curves(reg)
    return out


def moment(expr_truth_points=None):  # pragma: no cover - placeholder, moments use identities
    raise NotImplementedError


def text(expr, names=None):
    tag = expr[0]
    if tag == "leaf":
        if names is not None:
            return names.get(id(expr[1]), "L")
        return "L"
    if tag in UNARY:
        return "%s%s" % (SYMBOL[tag], text(expr[1], names))
    return "(%s %s %s)" % (text(expr[1], names), SYMBOL[tag], text(expr[2], names))


def sample_points(rng, expr, n, delta, near_fraction=0.35, dists=None, exact_grid=None):
    """Query points certified >= delta from every leaf boundary.
    Returns (points, rejected_count)."""
    from . import gen as G

    curves = leaf_curves(expr)
    if not curves:
        box = (Fr(-10), Fr(-10), Fr(10), Fr(10))
    else:
        box = O.curves_bbox(curves)
    diam = max(O.diameter(box), 1e-12)
    dists = dists or [diam * 1e-4, diam * 1e-3, diam * 1e-2, diam * 1e-1]
    pts = []
    rejected = 0
    n_near = int(n * near_fraction) if curves else 0
    cand = G.random_points(rng, box, n - n_near, exact_grid)
    for _ in range(3):
        if n_near and curves:
            cand += G.near_boundary_points(rng, rng.choice(curves), n_near, dists)
        break
    for p in cand:
        ok = True
        for c in curves:
            if not O.clearance_ok(c, p, delta):
                ok = False
                break
        if ok:
            pts.append(p)
        else:
            rejected += 1
    return pts, rejected
